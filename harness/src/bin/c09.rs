//! C09 – all entry points agree: str, slice, reader (any chunking), borrowed vs owned.
use proptest::prelude::*;
use serde::de::{DeserializeOwned, Visitor};
use serde::{Deserialize, Serialize};
use std::borrow::Cow;
use std::cell::RefCell;
use std::collections::{BTreeMap, HashMap};
use vcheck::engine::{self, Caught, Ctx, Outcome, Property};
use vcheck::gdoc;
use vcheck::iofault::{self, FaultyReader, Sched};
use vcheck::opts::{BudgetD, BudgetSel, DeOpts, Dup};
use vcheck::untyped::U;

const BOM: char = '\u{FEFF}';

// ------------------------------------------------------------------------------------------
// cases

#[derive(Clone, Copy, Debug, Serialize, Deserialize, PartialEq, Eq, Hash)]
enum Tgt {
    U,
    Cfg,
    Str,
    VecStr,
    MapSS,
    MapSVec,
}
const TGTS: [Tgt; 6] = [Tgt::U, Tgt::Cfg, Tgt::Str, Tgt::VecStr, Tgt::MapSS, Tgt::MapSVec];

#[derive(Clone, Debug, Serialize, Deserialize)]
enum Case {
    /// from_str, from_slice, the closure helpers and the reader entry points (under `sched`)
    /// return the same value / the same error variant at the same line and column
    Agree { doc: String, target: Tgt, opts: u8, sched: Sched },
    /// every entry point on BOM + doc equals itself on doc (`sched` partitions BOM + doc)
    Bom { doc: String, target: Tgt, sched: Sched },
    /// &str targets succeed exactly when every scalar is verbatim in the source
    Borrow { d: BDoc },
    /// reader input never lends (visit_borrowed_str is never called)
    Lend { d: BDoc, sched: Sched },
}

// ---- typed struct family ---------------------------------------------------------------------
#[derive(Debug, Deserialize, PartialEq)]
#[allow(dead_code)]
struct Cfg {
    name: String,
    count: i64,
    ratio: f64,
    on: bool,
    tags: Vec<String>,
    opt: Option<i32>,
    inner: Inner,
    mode: Mode,
    #[serde(default)]
    extra: BTreeMap<String, u8>,
}
#[derive(Debug, Deserialize, PartialEq)]
#[serde(deny_unknown_fields)]
#[allow(dead_code)]
struct Inner {
    x: u8,
    label: String,
}
#[derive(Debug, Deserialize, PartialEq)]
#[allow(dead_code)]
enum Mode {
    Fast,
    Slow(i32),
    Custom { level: u8 },
}

// ------------------------------------------------------------------------------------------
// option vectors

const N_OPTS: u8 = 15;
fn opts_of(i: u8) -> DeOpts {
    let d = DeOpts::default();
    let small = |f: &dyn Fn(&mut BudgetD)| {
        let mut b = BudgetD::default_budget();
        f(&mut b);
        BudgetSel::Explicit(b)
    };
    match i % N_OPTS {
        0 => d,
        1 => DeOpts { snippet: false, ..d },
        2 => DeOpts { dup: Dup::Last, ..d },
        3 => DeOpts { strict_bool: true, legacy_octal: true, dup: Dup::First, ..d },
        4 => DeOpts { budget: small(&|b| b.max_nodes = 6), ..d },
        5 => DeOpts { budget: small(&|b| { b.max_depth = 2; b.max_total_scalar_bytes = 24 }), crop: 0, ..d },
        6 => DeOpts { no_schema: true, ..d },
        // limits close to what short documents use: every entry point must draw the line at
        // the same event / document
        7..=12 => {
            let e = [5usize, 7, 8, 9, 11, 14][(i % N_OPTS - 7) as usize];
            DeOpts { budget: small(&|b| b.max_events = e), ..d }
        }
        13 => DeOpts { budget: small(&|b| b.max_documents = 1), ..d },
        _ => DeOpts { budget: small(&|b| { b.max_documents = 2; b.max_anchors = 1; b.max_aliases = 1 }), ..d },
    }
}

// ------------------------------------------------------------------------------------------
// result summaries

#[derive(Clone, Debug, PartialEq)]
enum Sum {
    Ok(String),
    /// variant name (= discriminant) of `without_snippet()`, line, column (0, 0 = none)
    Err { variant: String, line: u64, col: u64 },
    Spin,
    Panic(String),
}
impl std::fmt::Display for Sum {
    fn fmt(&self, f: &mut std::fmt::Formatter) -> std::fmt::Result {
        match self {
            Sum::Ok(v) => {
                let s: String = v.chars().take(160).collect();
                write!(f, "Ok({s})")
            }
            Sum::Err { variant, line, col } => write!(f, "Err({variant} at {line}:{col})"),
            Sum::Spin => write!(f, "<reader polled more than 10000 times after its end>"),
            Sum::Panic(m) => write!(f, "<{m}>"),
        }
    }
}
fn sum<T: std::fmt::Debug>(r: Result<T, serde_saphyr::Error>) -> Sum {
    match r {
        Ok(v) => Sum::Ok(format!("{:?}", v)),
        Err(e) => {
            let inner = e.without_snippet();
            let variant: String = format!("{:?}", inner).chars().take_while(|c| c.is_ascii_alphanumeric()).collect();
            let (line, col) = e.location().map(|l| (l.line(), l.column())).unwrap_or((0, 0));
            Sum::Err { variant, line, col }
        }
    }
}
fn guard(f: impl FnOnce() -> Sum) -> Sum {
    match engine::catch(f) {
        Caught::Ok(s) => s,
        Caught::Panic(m, l) => {
            if m.starts_with(iofault::SENTINEL) {
                Sum::Spin
            } else if engine::panic_in_library(&l) {
                Sum::Panic(format!("panic at {l}: {m}"))
            } else {
                panic!("harness panic at {l}: {m}")
            }
        }
    }
}

#[derive(Clone, Copy, Debug, PartialEq)]
enum Ep {
    FromStr,
    FromSlice,
    WdStr,
    WdSlice,
    FromReader,
    WdReader,
}
const MEM_EPS: [Ep; 4] = [Ep::FromStr, Ep::FromSlice, Ep::WdStr, Ep::WdSlice];
const RD_EPS: [Ep; 2] = [Ep::FromReader, Ep::WdReader];

/// Run one entry point.  `opts` 0 = the plain function, otherwise its `_with_options` twin.
fn run_ep<T: DeserializeOwned + std::fmt::Debug>(ep: Ep, text: &str, opts: u8, sched: &Sched, split: &mut bool) -> Sum {
    let o = || opts_of(opts).build();
    let plain = opts % N_OPTS == 0;
    guard(|| match ep {
        Ep::FromStr => sum(if plain { serde_saphyr::from_str::<T>(text) } else { serde_saphyr::from_str_with_options::<T>(text, o()) }),
        Ep::FromSlice => sum(if plain { serde_saphyr::from_slice::<T>(text.as_bytes()) } else { serde_saphyr::from_slice_with_options::<T>(text.as_bytes(), o()) }),
        Ep::WdStr => sum(if plain {
            serde_saphyr::with_deserializer_from_str(text, |de| T::deserialize(de))
        } else {
            serde_saphyr::with_deserializer_from_str_with_options(text, o(), |de| T::deserialize(de))
        }),
        Ep::WdSlice => sum(if plain {
            serde_saphyr::with_deserializer_from_slice(text.as_bytes(), |de| T::deserialize(de))
        } else {
            serde_saphyr::with_deserializer_from_slice_with_options(text.as_bytes(), o(), |de| T::deserialize(de))
        }),
        Ep::FromReader => {
            let mut rd = FaultyReader::new(text.as_bytes(), sched);
            let r = sum(if plain { serde_saphyr::from_reader::<_, T>(&mut rd) } else { serde_saphyr::from_reader_with_options::<_, T>(&mut rd, o()) });
            *split |= rd.split_inside_char;
            r
        }
        Ep::WdReader => {
            let mut rd = FaultyReader::new(text.as_bytes(), sched);
            let r = sum(if plain {
                serde_saphyr::with_deserializer_from_reader(&mut rd, |de| T::deserialize(de))
            } else {
                serde_saphyr::with_deserializer_from_reader_with_options(&mut rd, o(), |de| T::deserialize(de))
            });
            *split |= rd.split_inside_char;
            r
        }
    })
}
fn run(ep: Ep, target: Tgt, text: &str, opts: u8, sched: &Sched, split: &mut bool) -> Sum {
    match target {
        Tgt::U => run_ep::<U>(ep, text, opts, sched, split),
        Tgt::Cfg => run_ep::<Cfg>(ep, text, opts, sched, split),
        Tgt::Str => run_ep::<String>(ep, text, opts, sched, split),
        Tgt::VecStr => run_ep::<Vec<String>>(ep, text, opts, sched, split),
        Tgt::MapSS => run_ep::<BTreeMap<String, String>>(ep, text, opts, sched, split),
        Tgt::MapSVec => run_ep::<BTreeMap<String, Vec<String>>>(ep, text, opts, sched, split),
    }
}

/// Is the error location behind the first multi-byte character of the text?
fn after_multibyte(text: &str, s: &Sum) -> bool {
    let Sum::Err { line, col, .. } = s else { return false };
    if *line == 0 {
        return false;
    }
    let text = text.strip_prefix(BOM).unwrap_or(text);
    let (mut l, mut c) = (1u64, 1u64);
    for ch in text.chars() {
        if ch.len_utf8() > 1 {
            return (*line, *col) > (l, c);
        }
        if ch == '\n' {
            l += 1;
            c = 1;
        } else {
            c += 1;
        }
    }
    false
}

fn check_agree(doc: &str, target: Tgt, opts: u8, sched: &Sched) -> Outcome {
    if iofault::percent_tail(doc.as_bytes()) {
        return Outcome::Discard("reader_percent_eof (open C01 finding): not fed to a reader");
    }
    let mut split = false;
    let base = run(Ep::FromStr, target, doc, opts, sched, &mut split);
    if matches!(base, Sum::Panic(_) | Sum::Spin) {
        return Outcome::Fail(format!("from_str: {base}"));
    }
    let mut fail = None;
    for ep in MEM_EPS.iter().skip(1).chain(RD_EPS.iter()) {
        let r = run(*ep, target, doc, opts, sched, &mut split);
        if r != base && fail.is_none() {
            fail = Some(format!("{:?} gives {} but from_str gives {}", ep, r, base));
        }
    }
    match fail {
        None => Outcome::Pass,
        Some(m) => Outcome::Fail(m),
    }
}

fn check_bom(doc: &str, target: Tgt, sched: &Sched) -> Outcome {
    if doc.starts_with(BOM) {
        // BOM + doc would start with two BOMs; the claim is about *a* leading BOM
        return Outcome::Discard("document already starts with a BOM: outside the BOM-neutrality claim");
    }
    let with = format!("{BOM}{doc}");
    if iofault::percent_tail(doc.as_bytes()) || iofault::percent_tail(with.as_bytes()) {
        return Outcome::Discard("reader_percent_eof (open C01 finding): not fed to a reader");
    }
    let mut split = false;
    let all = Sched::All;
    for ep in MEM_EPS.iter().chain(RD_EPS.iter()) {
        let a = run(*ep, target, doc, 0, &all, &mut false);
        let b = run(*ep, target, &with, 0, sched, &mut split);
        if a != b {
            return Outcome::Fail(format!("{:?}: with a leading BOM {} but without it {}", ep, b, a));
        }
    }
    Outcome::Pass
}

// ------------------------------------------------------------------------------------------
// documents with ground truth about borrowing

#[derive(Clone, Copy, Debug, Serialize, Deserialize, PartialEq, Eq, Hash)]
enum Style {
    Plain,
    Single,
    /// contains `'`, written `''`
    SingleQQ,
    Double,
    /// contains characters written as escapes
    DoubleEsc,
    /// `|-` block, one line
    Literal,
    /// `|` block, one line, keeps the final break
    LiteralKeep,
    /// `>-` block, one line
    Folded,
    /// plain scalar continued on a second line (folded into one space)
    PlainMulti,
    /// double-quoted scalar continued on a second line
    DoubleMulti,
    /// `!!str word`
    Tagged,
    /// `&aN word`
    Anchored,
    /// `*aN` of the closest anchored scalar before it (plain if there is none)
    Alias,
    /// `!!str ~`: a string by its tag, verbatim in the input
    TaggedNull,
    /// `!!binary aGVsbG8=`: the owned target receives the decoded text, which is not in the input
    Binary,
    /// `!!int 42`: not a string for the owned target - nor for the borrowed one
    TaggedInt,
}
const VALUE_STYLES: [Style; 16] = [
    Style::Plain,
    Style::Single,
    Style::SingleQQ,
    Style::Double,
    Style::DoubleEsc,
    Style::Literal,
    Style::LiteralKeep,
    Style::Folded,
    Style::PlainMulti,
    Style::DoubleMulti,
    Style::Tagged,
    Style::Anchored,
    Style::Alias,
    Style::TaggedNull,
    Style::Binary,
    Style::TaggedInt,
];

#[derive(Clone, Copy, Debug, PartialEq, Eq)]
enum Lendable {
    /// value is a contiguous piece of the source: must be lent (README / rustdoc of from_str;
    /// DESIGN.md C09: plain single-line, quoted without escapes, empty quoted, tagged, aliased)
    Verbatim,
    /// escapes, `''`, line folding: cannot be lent, `&str` must fail
    Transformed,
    /// block scalars: the docs do not say; either outcome, checked for safety
    Free,
}

#[derive(Clone, Copy, Debug, Serialize, Deserialize, PartialEq, Eq, Hash)]
enum Shape {
    Seq,
    Map,
    Struct,
}

#[derive(Clone, Debug, Serialize, Deserialize, PartialEq, Eq, Hash)]
struct Sc {
    words: Vec<u8>,
    style: Style,
}
#[derive(Clone, Debug, Serialize, Deserialize, PartialEq, Eq, Hash)]
struct BDoc {
    shape: Shape,
    items: Vec<Sc>,
    flow: bool,
    crlf: bool,
    bom: bool,
    comments: bool,
}
const WORDS: [&str; 12] = ["a", "bc", "word", "é", "naïve", "日本", "😀", "x1", "Zed", "ü2", "q-r", "m.n"];

struct RenderedScalar {
    src: String,
    value: String,
    lend: Lendable,
}

struct Rendered {
    text: String,
    /// scalar values in document order (keys and values interleaved for maps)
    values: Vec<String>,
    lend: Vec<Lendable>,
}

impl BDoc {
    fn scalar(&self, sc: &Sc, idx: usize, is_key: bool, cont: &str, anchors: &mut Vec<(usize, String)>) -> RenderedScalar {
        let words: Vec<&str> = sc.words.iter().map(|w| WORDS[*w as usize % WORDS.len()]).collect();
        let mut style = sc.style;
        if self.flow || is_key {
            style = match style {
                Style::Literal | Style::LiteralKeep | Style::Folded => Style::Double,
                Style::PlainMulti => Style::Plain,
                Style::DoubleMulti => Style::Double,
                s => s,
            };
        }
        if is_key {
            style = match style {
                Style::Anchored | Style::Alias => Style::Plain,
                s => s,
            };
        }
        if words.is_empty() {
            style = match style {
                Style::Double | Style::DoubleEsc | Style::DoubleMulti => Style::Double,
                Style::Alias => Style::Alias,
                _ => Style::Single,
            };
        }
        if words.len() < 2 {
            style = match style {
                Style::PlainMulti => Style::Plain,
                Style::DoubleMulti => Style::Double,
                s => s,
            };
        }
        let mut v = words.join(" ");
        if is_key {
            // keys are distinct by construction
            v.push_str(&format!("{idx}"));
        }
        let nl = "\n";
        use Lendable::*;
        let (src, value, lend) = match style {
            Style::Plain => (v.clone(), v, Verbatim),
            Style::Single => (format!("'{v}'"), v, Verbatim),
            Style::SingleQQ => {
                let val = format!("{v}'s");
                (format!("'{}'", val.replace('\'', "''")), val, Transformed)
            }
            Style::Double => (format!("\"{v}\""), v, Verbatim),
            Style::DoubleEsc => {
                if words.len() % 2 == 1 {
                    (format!("\"{v}\\t\""), format!("{v}\t"), Transformed)
                } else {
                    (format!("\"\\x41{v}\""), format!("A{v}"), Transformed)
                }
            }
            Style::Literal => (format!("|-{nl}{cont}{v}"), v, Free),
            Style::LiteralKeep => (format!("|{nl}{cont}{v}{nl}"), format!("{v}\n"), Free),
            Style::Folded => (format!(">-{nl}{cont}{v}"), v, Free),
            Style::PlainMulti => (format!("{}{nl}{cont}{}", words[0], words[1..].join(" ")), v, Transformed),
            Style::DoubleMulti => (format!("\"{}{nl}{cont}{}\"", words[0], words[1..].join(" ")), v, Transformed),
            Style::Tagged => (format!("!!str {v}"), v, Verbatim),
            Style::TaggedNull => ("!!str ~".to_string(), "~".to_string(), Verbatim),
            Style::Binary => ("!!binary aGVsbG8=".to_string(), "hello".to_string(), Transformed),
            Style::TaggedInt => ("!!int 42".to_string(), "42".to_string(), Verbatim),
            Style::Anchored => {
                anchors.push((idx, v.clone()));
                (format!("&a{idx} {v}"), v, Verbatim)
            }
            Style::Alias => match anchors.last() {
                Some((n, val)) => (format!("*a{n}"), val.clone(), Verbatim),
                None => {
                    if v.is_empty() {
                        ("''".to_string(), v, Verbatim)
                    } else {
                        (v.clone(), v, Verbatim)
                    }
                }
            },
        };
        RenderedScalar { src, value, lend }
    }

    fn render(&self) -> Rendered {
        let mut out = String::new();
        let mut values = vec![];
        let mut lend = vec![];
        let mut anchors: Vec<(usize, String)> = vec![];
        let mut cno = 0;
        let mut comment = |single_line: bool, out: &mut String| {
            if self.comments && single_line {
                cno += 1;
                if cno % 2 == 1 {
                    out.push_str(" # c");
                }
            }
        };
        let ends_with_break = |s: &str| s.ends_with('\n');
        match (self.shape, self.flow) {
            (Shape::Seq, false) => {
                if self.items.is_empty() {
                    out.push_str("[]\n");
                }
                for (i, sc) in self.items.iter().enumerate() {
                    let r = self.scalar(sc, i, false, "  ", &mut anchors);
                    out.push_str("- ");
                    out.push_str(&r.src);
                    comment(!r.src.contains('\n'), &mut out);
                    if !ends_with_break(&r.src) {
                        out.push('\n');
                    }
                    values.push(r.value);
                    lend.push(r.lend);
                }
            }
            (Shape::Seq, true) => {
                out.push('[');
                for (i, sc) in self.items.iter().enumerate() {
                    if i > 0 {
                        out.push_str(", ");
                    }
                    let r = self.scalar(sc, i, false, " ", &mut anchors);
                    out.push_str(&r.src);
                    values.push(r.value);
                    lend.push(r.lend);
                }
                out.push_str("]\n");
            }
            (Shape::Map, flow) => {
                let n = self.items.len() / 2;
                if flow {
                    out.push('{');
                } else if n == 0 {
                    out.push_str("{}\n");
                }
                for i in 0..n {
                    let k = self.scalar(&self.items[2 * i], 2 * i, true, "  ", &mut anchors);
                    let v = self.scalar(&self.items[2 * i + 1], 2 * i + 1, false, "  ", &mut anchors);
                    if flow && i > 0 {
                        out.push_str(", ");
                    }
                    out.push_str(&k.src);
                    out.push_str(": ");
                    out.push_str(&v.src);
                    if !flow {
                        comment(!v.src.contains('\n'), &mut out);
                        if !ends_with_break(&v.src) {
                            out.push('\n');
                        }
                    }
                    values.push(k.value);
                    lend.push(k.lend);
                    values.push(v.value);
                    lend.push(v.lend);
                }
                if flow {
                    out.push_str("}\n");
                }
            }
            (Shape::Struct, flow) => {
                // name: s0, title: s1, items: [s2..]; missing scalars default to plain "a"
                let d = Sc { words: vec![0], style: Style::Plain };
                let s0 = self.items.first().unwrap_or(&d);
                let s1 = self.items.get(1).unwrap_or(&d);
                let rest: &[Sc] = if self.items.len() > 2 { &self.items[2..] } else { &[] };
                let r0 = self.scalar(s0, 0, false, "  ", &mut anchors);
                let r1 = self.scalar(s1, 1, false, "  ", &mut anchors);
                if flow {
                    out.push_str(&format!("{{name: {}, title: {}, items: [", r0.src, r1.src));
                } else {
                    out.push_str("name: ");
                    out.push_str(&r0.src);
                    comment(!r0.src.contains('\n'), &mut out);
                    if !ends_with_break(&r0.src) {
                        out.push('\n');
                    }
                    out.push_str("title: ");
                    out.push_str(&r1.src);
                    if !ends_with_break(&r1.src) {
                        out.push('\n');
                    }
                    out.push_str(if rest.is_empty() { "items: []\n" } else { "items:\n" });
                }
                values.push(r0.value);
                lend.push(r0.lend);
                values.push(r1.value);
                lend.push(r1.lend);
                for (j, sc) in rest.iter().enumerate() {
                    let r = self.scalar(sc, j + 2, false, "      ", &mut anchors);
                    if flow {
                        if j > 0 {
                            out.push_str(", ");
                        }
                        out.push_str(&r.src);
                    } else {
                        out.push_str("  - ");
                        out.push_str(&r.src);
                        comment(!r.src.contains('\n'), &mut out);
                        if !ends_with_break(&r.src) {
                            out.push('\n');
                        }
                    }
                    values.push(r.value);
                    lend.push(r.lend);
                }
                if flow {
                    out.push_str("]}\n");
                }
            }
        }
        if self.crlf {
            out = out.replace('\n', "\r\n");
        }
        if self.bom {
            out.insert(0, BOM);
        }
        Rendered { text: out, values, lend }
    }
}

#[derive(Debug, Deserialize, PartialEq)]
struct OS {
    name: String,
    title: String,
    items: Vec<String>,
}
#[derive(Debug, Deserialize, PartialEq)]
struct BS<'a> {
    name: &'a str,
    title: &'a str,
    #[serde(borrow)]
    items: Vec<&'a str>,
}
#[derive(Debug, Deserialize, PartialEq)]
struct CS<'a> {
    #[serde(borrow)]
    name: Cow<'a, str>,
    #[serde(borrow)]
    title: Cow<'a, str>,
    items: Vec<String>,
}

fn inside(text: &str, s: &str) -> bool {
    if s.is_empty() {
        return true;
    }
    let (a, b) = (text.as_ptr() as usize, text.as_ptr() as usize + text.len());
    let (p, q) = (s.as_ptr() as usize, s.as_ptr() as usize + s.len());
    p >= a && q <= b
}

/// One borrowed-target run: Ok(strings in document order, all inside the input?) or the error.
fn borrowed_run(shape: Shape, text: &str, via: Ep) -> Result<(Vec<String>, bool), serde_saphyr::Error> {
    fn go<'a, T: Deserialize<'a>>(text: &'a str, via: Ep) -> Result<T, serde_saphyr::Error> {
        match via {
            Ep::FromStr => serde_saphyr::from_str::<T>(text),
            Ep::FromSlice => serde_saphyr::from_slice_with_options::<T>(text.as_bytes(), serde_saphyr::Options::default()),
            Ep::WdStr => serde_saphyr::with_deserializer_from_str(text, |de| T::deserialize(de)),
            _ => serde_saphyr::with_deserializer_from_slice(text.as_bytes(), |de| T::deserialize(de)),
        }
    }
    match shape {
        Shape::Seq => {
            let v: Vec<&str> = go(text, via)?;
            let ok = v.iter().all(|s| inside(text, s));
            Ok((v.into_iter().map(String::from).collect(), ok))
        }
        Shape::Map => {
            let m: HashMap<&str, &str> = go(text, via)?;
            let ok = m.iter().all(|(k, v)| inside(text, k) && inside(text, v));
            let mut pairs: Vec<(String, String)> = m.into_iter().map(|(k, v)| (k.to_string(), v.to_string())).collect();
            pairs.sort();
            Ok((pairs.into_iter().flat_map(|(k, v)| [k, v]).collect(), ok))
        }
        Shape::Struct => {
            let s: BS = go(text, via)?;
            let ok = inside(text, s.name) && inside(text, s.title) && s.items.iter().all(|x| inside(text, x));
            let mut v = vec![s.name.to_string(), s.title.to_string()];
            v.extend(s.items.iter().map(|x| x.to_string()));
            Ok((v, ok))
        }
    }
}
fn owned_run(shape: Shape, text: &str) -> Result<Vec<String>, serde_saphyr::Error> {
    match shape {
        Shape::Seq => serde_saphyr::from_str::<Vec<String>>(text),
        Shape::Map => serde_saphyr::from_str::<BTreeMap<String, String>>(text).map(|m| m.into_iter().flat_map(|(k, v)| [k, v]).collect()),
        Shape::Struct => serde_saphyr::from_str::<OS>(text).map(|s| {
            let mut v = vec![s.name, s.title];
            v.extend(s.items);
            v
        }),
    }
}
fn cow_run(shape: Shape, text: &str) -> Result<Vec<String>, serde_saphyr::Error> {
    match shape {
        Shape::Seq => serde_saphyr::from_str::<Vec<Cow<str>>>(text).map(|v| v.into_iter().map(|c| c.into_owned()).collect()),
        Shape::Map => serde_saphyr::from_str::<BTreeMap<Cow<str>, Cow<str>>>(text).map(|m| m.into_iter().flat_map(|(k, v)| [k.into_owned(), v.into_owned()]).collect()),
        Shape::Struct => serde_saphyr::from_str::<CS>(text).map(|s| {
            let mut v = vec![s.name.into_owned(), s.title.into_owned()];
            v.extend(s.items);
            v
        }),
    }
}
/// expected values in the order the runs above deliver them
fn expected_values(shape: Shape, r: &Rendered) -> Vec<String> {
    match shape {
        Shape::Map => {
            let mut pairs: Vec<(String, String)> = r.values.chunks(2).map(|c| (c[0].clone(), c[1].clone())).collect();
            pairs.sort();
            pairs.into_iter().flat_map(|(k, v)| [k, v]).collect()
        }
        _ => r.values.clone(),
    }
}

fn check_borrow(d: &BDoc) -> Outcome {
    let r = d.render();
    let text = r.text.as_str();
    let want = expected_values(d.shape, &r);
    let owned = match engine::catch(|| owned_run(d.shape, text)) {
        Caught::Ok(Ok(v)) => v,
        Caught::Ok(Err(e)) => {
            // "succeeds exactly when ... and then yields the same text as the owned variant":
            // what the owned target rejects (a scalar tagged `!!int`, say) the borrowed one
            // rejects as well
            let _ = e;
            for via in MEM_EPS {
                match engine::catch(|| borrowed_run(d.shape, text, via)) {
                    Caught::Ok(Ok((vals, _))) => {
                        return Outcome::Fail(format!("{via:?}: &str target accepts a document that the String target rejects: {vals:?} from {text:?}"));
                    }
                    Caught::Ok(Err(_)) => {}
                    Caught::Panic(m, l) => return Outcome::Fail(format!("panic at {l}: {m}")),
                }
            }
            return Outcome::Discard("owned and borrowed targets both reject the document");
        }
        Caught::Panic(m, l) => return Outcome::Fail(format!("panic at {l}: {m}")),
    };
    if owned != want {
        return Outcome::Discard("selfcheck: generated document reads back differently from the generator's ground truth");
    }
    let any_transformed = r.lend.iter().any(|l| *l == Lendable::Transformed);
    let any_free = r.lend.iter().any(|l| *l == Lendable::Free);
    // Cow<str> with #[serde(borrow)]: always equal to owned
    match engine::catch(|| cow_run(d.shape, text)) {
        Caught::Ok(Ok(v)) if v == owned => {}
        Caught::Ok(Ok(v)) => return Outcome::Fail(format!("Cow<str> target differs from the owned result: {v:?} vs {owned:?} on {text:?}")),
        Caught::Ok(Err(e)) => return Outcome::Fail(format!("Cow<str> target fails where String succeeds: {} on {text:?}", e.without_snippet())),
        Caught::Panic(m, l) => return Outcome::Fail(format!("panic at {l}: {m}")),
    }
    for via in MEM_EPS {
        let b = match engine::catch(|| borrowed_run(d.shape, text, via)) {
            Caught::Ok(b) => b,
            Caught::Panic(m, l) => return Outcome::Fail(format!("panic at {l}: {m}")),
        };
        match b {
            Ok((vals, in_range)) => {
                if any_transformed {
                    return Outcome::Fail(format!(
                        "{via:?}: &str target accepted a document with a transformed scalar (escapes / '' / folded lines): {vals:?} from {text:?}"
                    ));
                }
                if !in_range {
                    return Outcome::Fail(format!("{via:?}: a returned &str lies outside the input buffer ({text:?})"));
                }
                if vals != owned {
                    return Outcome::Fail(format!("{via:?}: &str target yields {vals:?}, String target {owned:?} on {text:?}"));
                }
            }
            Err(e) => {
                let s = sum::<()>(Err(e));
                let is_cannot_borrow = matches!(&s, Sum::Err { variant, .. } if variant == "CannotBorrowTransformedString");
                if !any_transformed && !any_free {
                    return Outcome::Fail(format!("{via:?}: every scalar is verbatim in the source, yet the &str target fails: {s} on {text:?}"));
                }
                if !is_cannot_borrow {
                    return Outcome::Fail(format!("{via:?}: &str target fails with {s}, expected CannotBorrowTransformedString, on {text:?}"));
                }
            }
        }
    }
    Outcome::Pass
}

// ---- recording visitors -----------------------------------------------------------------------

thread_local! {
    /// (visit_borrowed_str, visit_str, visit_string) calls
    static VISITS: RefCell<(u32, u32, u32)> = const { RefCell::new((0, 0, 0)) };
}
struct Leaf<const MODE: u8>(#[allow(dead_code)] String);
impl<const MODE: u8> std::fmt::Debug for Leaf<MODE> {
    fn fmt(&self, f: &mut std::fmt::Formatter) -> std::fmt::Result {
        write!(f, "{:?}", self.0)
    }
}
struct LeafV;
impl<'de> Visitor<'de> for LeafV {
    type Value = String;
    fn expecting(&self, f: &mut std::fmt::Formatter) -> std::fmt::Result {
        f.write_str("a string")
    }
    fn visit_borrowed_str<E>(self, v: &'de str) -> Result<String, E> {
        VISITS.with(|c| c.borrow_mut().0 += 1);
        Ok(v.to_string())
    }
    fn visit_str<E>(self, v: &str) -> Result<String, E> {
        VISITS.with(|c| c.borrow_mut().1 += 1);
        Ok(v.to_string())
    }
    fn visit_string<E>(self, v: String) -> Result<String, E> {
        VISITS.with(|c| c.borrow_mut().2 += 1);
        Ok(v)
    }
}
impl<'de, const MODE: u8> Deserialize<'de> for Leaf<MODE> {
    fn deserialize<D: serde::Deserializer<'de>>(d: D) -> Result<Self, D::Error> {
        match MODE {
            0 => d.deserialize_str(LeafV).map(Leaf),
            1 => d.deserialize_string(LeafV).map(Leaf),
            _ => d.deserialize_any(LeafV).map(Leaf),
        }
    }
}
#[derive(Debug)]
struct Pairs<L>(#[allow(dead_code)] Vec<(L, L)>);
impl<'de, L: Deserialize<'de>> Deserialize<'de> for Pairs<L> {
    fn deserialize<D: serde::Deserializer<'de>>(d: D) -> Result<Self, D::Error> {
        struct V<L>(std::marker::PhantomData<L>);
        impl<'de, L: Deserialize<'de>> Visitor<'de> for V<L> {
            type Value = Pairs<L>;
            fn expecting(&self, f: &mut std::fmt::Formatter) -> std::fmt::Result {
                f.write_str("a map")
            }
            fn visit_map<A: serde::de::MapAccess<'de>>(self, mut a: A) -> Result<Pairs<L>, A::Error> {
                let mut v = vec![];
                while let Some(k) = a.next_key::<L>()? {
                    v.push((k, a.next_value::<L>()?));
                }
                Ok(Pairs(v))
            }
        }
        d.deserialize_map(V(std::marker::PhantomData))
    }
}
#[derive(Debug, Deserialize)]
#[allow(dead_code)]
struct LS<L> {
    name: L,
    title: L,
    items: Vec<L>,
}

fn lend_run<L: DeserializeOwned + std::fmt::Debug>(shape: Shape, text: &str, sched: &Sched, wd: bool, in_memory: bool) -> (Sum, (u32, u32, u32)) {
    fn go<T: DeserializeOwned + std::fmt::Debug>(text: &str, sched: &Sched, wd: bool, in_memory: bool) -> Sum {
        guard(|| {
            if in_memory {
                return sum(if wd { serde_saphyr::with_deserializer_from_str(text, |de| T::deserialize(de)) } else { serde_saphyr::from_str::<T>(text) });
            }
            let mut rd = FaultyReader::new(text.as_bytes(), sched);
            sum(if wd { serde_saphyr::with_deserializer_from_reader(&mut rd, |de| T::deserialize(de)) } else { serde_saphyr::from_reader::<_, T>(&mut rd) })
        })
    }
    VISITS.with(|c| *c.borrow_mut() = (0, 0, 0));
    let s = match shape {
        Shape::Seq => go::<Vec<L>>(text, sched, wd, in_memory),
        Shape::Map => go::<Pairs<L>>(text, sched, wd, in_memory),
        Shape::Struct => go::<LS<L>>(text, sched, wd, in_memory),
    };
    (s, VISITS.with(|c| *c.borrow()))
}

fn check_lend(d: &BDoc, sched: &Sched) -> Outcome {
    let r = d.render();
    let text = r.text.as_str();
    if iofault::percent_tail(text.as_bytes()) {
        return Outcome::Discard("reader_percent_eof (open C01 finding): not fed to a reader");
    }
    let all_verbatim = r.lend.iter().all(|l| *l == Lendable::Verbatim);
    for mode in 0..3u8 {
        for wd in [false, true] {
            let run = |in_memory: bool| match mode {
                0 => lend_run::<Leaf<0>>(d.shape, text, sched, wd, in_memory),
                1 => lend_run::<Leaf<1>>(d.shape, text, sched, wd, in_memory),
                _ => lend_run::<Leaf<2>>(d.shape, text, sched, wd, in_memory),
            };
            let (mem, mem_visits) = run(true);
            let (rd, rd_visits) = run(false);
            let how = ["deserialize_str", "deserialize_string", "deserialize_any"][mode as usize];
            let which = if wd { "with_deserializer_from_reader" } else { "from_reader" };
            if rd != mem {
                return Outcome::Fail(format!("{which} ({how}) gives {rd}, the in-memory twin {mem}, on {text:?}"));
            }
            if rd_visits.0 != 0 {
                return Outcome::Fail(format!("{which} ({how}) called visit_borrowed_str {} times on {text:?}", rd_visits.0));
            }
            if !matches!(mem, Sum::Ok(_)) {
                return Outcome::Discard("selfcheck: generated document rejected");
            }
            // in memory, deserialize_str on an all-verbatim document lends every scalar
            if mode == 0 && all_verbatim && (mem_visits.1 != 0 || mem_visits.2 != 0) {
                return Outcome::Fail(format!(
                    "from_str (deserialize_str): every scalar is verbatim in the source but {} scalars were not offered as borrowed, on {text:?}",
                    mem_visits.1 + mem_visits.2
                ));
            }
        }
    }
    Outcome::Pass
}

// ------------------------------------------------------------------------------------------
// generators

fn arb_sc(styles: &'static [Style]) -> impl Strategy<Value = Sc> + Clone + use<> {
    (prop::collection::vec(0u8..WORDS.len() as u8, 0..4), prop::sample::select(styles.to_vec())).prop_map(|(words, style)| Sc { words, style })
}
const VERBATIM_STYLES: [Style; 6] = [Style::Plain, Style::Single, Style::Double, Style::Tagged, Style::Anchored, Style::Alias];

fn arb_bdoc() -> impl Strategy<Value = BDoc> + Clone + use<> {
    // half of the documents are verbatim everywhere, the others draw from all styles
    let items = prop_oneof![
        prop::collection::vec(arb_sc(&VERBATIM_STYLES), 0..7),
        prop::collection::vec(arb_sc(&VALUE_STYLES), 0..7),
        (prop::collection::vec(arb_sc(&VERBATIM_STYLES), 0..6), arb_sc(&VALUE_STYLES), 0usize..6).prop_map(|(mut v, one, at)| {
            let at = at.min(v.len());
            v.insert(at, one);
            v
        }),
    ];
    (prop::sample::select(vec![Shape::Seq, Shape::Map, Shape::Struct]), items, any::<bool>(), 0u8..4, 0u8..4, any::<bool>()).prop_map(
        |(shape, items, flow, crlf, bom, comments)| BDoc { shape, items, flow: flow && crlf != 1, crlf: crlf == 0, bom: bom == 0, comments },
    )
}

/// Cfg documents with deviations (missing / unknown / mistyped fields, duplicates).
fn arb_cfg_doc() -> impl Strategy<Value = String> + Clone + use<> {
    let name = prop::sample::select(vec!["app", "\"quoted name\"", "naïve", "'it''s'", "日本 😀", "~", "123", ""]);
    let count = prop::sample::select(vec!["1", "-7", "0x1F", "1_000", "abc", "1.5", "99999999999999999999", "é"]);
    let ratio = prop::sample::select(vec!["1.5", ".inf", "-0.0", "2", "x", ".nan", "1e3"]);
    let on = prop::sample::select(vec!["true", "false", "yes", "no", "1", "ü"]);
    let tags = prop::sample::select(vec!["[a, b]", "[]", "\n  - é\n  - 😀x", "x", "[a, [b]]", "\n  - a\n  -  b"]);
    let opt = prop::sample::select(vec!["~", "5", "null", "", "five"]);
    let inner = prop::sample::select(vec!["{x: 1, label: l}", "\n  x: 255\n  label: é", "\n  x: 256\n  label: é", "\n  x: 1\n  label: l\n  zz: 1", "{x: 1}", "[]"]);
    let mode = prop::sample::select(vec!["Fast", "{Slow: 3}", "\n  Custom:\n    level: 2", "!Slow 4", "Nope", "{Custom: {level: 300}}", "Slow"]);
    (name, count, ratio, on, tags, opt, inner, mode, prop::collection::vec(0u8..12, 0..3), any::<u16>()).prop_map(|(name, count, ratio, on, tags, opt, inner, mode, dev, r)| {
        let mut fields: Vec<(String, String)> = vec![
            ("name".into(), name.into()),
            ("count".into(), count.into()),
            ("ratio".into(), ratio.into()),
            ("on".into(), on.into()),
            ("tags".into(), tags.into()),
            ("opt".into(), opt.into()),
            ("inner".into(), inner.into()),
            ("mode".into(), mode.into()),
        ];
        for d in dev {
            let i = (r as usize + d as usize) % fields.len().max(1);
            match d {
                0 | 1 => {
                    if !fields.is_empty() {
                        fields.remove(i);
                    }
                }
                2 => {
                    if !fields.is_empty() {
                        let f = fields[i].clone();
                        fields.push(f);
                    }
                }
                3 => fields.push(("unknown".into(), "1".into())),
                4 => fields.push(("extra".into(), "{é: 1, b: 2}".into())),
                5 => fields.push(("extra".into(), "{a: 300}".into())),
                6 => {
                    if !fields.is_empty() {
                        fields.swap(0, i);
                    }
                }
                _ => {}
            }
        }
        let mut s = String::new();
        if r % 5 == 0 {
            s.push_str("# configuration é\n");
        }
        if r % 7 == 0 {
            s.push_str("---\n");
        }
        for (k, v) in fields {
            s.push_str(&k);
            s.push(':');
            if !v.starts_with('\n') && !v.is_empty() {
                s.push(' ');
            }
            s.push_str(&v);
            s.push('\n');
        }
        if r % 11 == 0 {
            s = s.replace('\n', "\r\n");
        }
        s
    })
}

/// valid documents of assorted shapes from the shared G-doc generator, with multi-byte text
/// substituted into some scalars
fn arb_gdoc_text() -> impl Strategy<Value = String> + Clone + use<> {
    (gdoc::arb_tree(3, 12), prop::collection::vec(any::<u16>(), 0..8), 0u32..4096, 0u8..8, any::<bool>()).prop_map(|(tree, script, lay, mb, anchors)| {
        let tree = if anchors { gdoc::decorate(&tree, &script, 15, 10, 0) } else { tree };
        let mut t = gdoc::render(&tree, &gdoc::Layout::from_bits(lay)).text;
        if mb & 1 != 0 {
            t = t.replace("foo", "fóo");
        }
        if mb & 2 != 0 {
            t = t.replace("bar", "b😀r");
        }
        if mb & 4 != 0 {
            t = t.replace("zz", "日本");
        }
        t
    })
}

const MUT_CHARS: [char; 24] = [':', '-', '[', ']', '{', '}', '"', '\'', '&', '*', '#', '!', '|', '>', ',', '?', ' ', '\t', '\n', '\r', 'é', '😀', '\u{FEFF}', '\u{85}'];
fn mutate(text: &str, ops: &[(u16, u8, u8)]) -> String {
    let mut chars: Vec<char> = text.chars().collect();
    for (pos, kind, ch) in ops {
        let n = chars.len();
        let i = if n == 0 { 0 } else { engine::pick_idx(*pos, n) };
        let c = MUT_CHARS[*ch as usize % MUT_CHARS.len()];
        match kind % 6 {
            0 => {
                if n > 0 {
                    chars.remove(i);
                }
            }
            1 => chars.insert(i.min(n), c),
            2 => {
                if n > 0 {
                    chars[i] = c;
                }
            }
            3 => chars.truncate(i),
            4 => {
                // duplicate the line containing i
                let s = chars[..i].iter().rposition(|c| *c == '\n').map(|p| p + 1).unwrap_or(0);
                let e = chars[i..].iter().position(|c| *c == '\n').map(|p| i + p + 1).unwrap_or(n);
                let line: Vec<char> = chars[s..e].to_vec();
                let at = e;
                for (j, c) in line.into_iter().enumerate() {
                    chars.insert(at + j, c);
                }
            }
            _ => {
                // indent change
                chars.insert(i.min(n), ' ');
                chars.insert(i.min(n), ' ');
            }
        }
    }
    chars.into_iter().collect()
}

#[derive(Clone, Debug)]
enum SchedKind {
    One,
    Fixed(usize),
    Random(Vec<u16>),
    Adversarial,
    AdversarialPlus(Vec<u16>),
    All,
}
fn arb_sched_kind() -> impl Strategy<Value = SchedKind> + Clone + use<> {
    prop_oneof![
        2 => Just(SchedKind::One),
        3 => prop::sample::select(vec![2usize, 3, 4, 5, 7]).prop_map(SchedKind::Fixed),
        3 => prop::collection::vec(any::<u16>(), 0..12).prop_map(SchedKind::Random),
        3 => Just(SchedKind::Adversarial),
        1 => prop::collection::vec(any::<u16>(), 1..6).prop_map(SchedKind::AdversarialPlus),
        1 => Just(SchedKind::All),
    ]
}
fn make_sched(kind: &SchedKind, text: &str) -> Sched {
    let n = text.len();
    let rand_cuts = |r: &Vec<u16>| -> Vec<usize> {
        if n < 2 {
            return vec![];
        }
        r.iter().map(|x| 1 + engine::pick_idx(*x, n - 1)).collect()
    };
    match kind {
        SchedKind::One => Sched::Fixed(1),
        SchedKind::Fixed(k) => Sched::Fixed(*k),
        SchedKind::All => Sched::All,
        SchedKind::Random(r) => {
            let mut c = rand_cuts(r);
            c.sort();
            c.dedup();
            Sched::Cuts(c)
        }
        SchedKind::Adversarial => Sched::Cuts(iofault::adversarial_cuts(text)),
        SchedKind::AdversarialPlus(r) => {
            let mut c = iofault::adversarial_cuts(text);
            c.extend(rand_cuts(r));
            c.sort();
            c.dedup();
            Sched::Cuts(c)
        }
    }
}

fn arb_text() -> impl Strategy<Value = String> + Clone + use<> {
    let base = prop_oneof![
        4 => arb_gdoc_text(),
        2 => arb_cfg_doc(),
        2 => arb_bdoc().prop_map(|d| d.render().text),
    ];
    (base, prop::collection::vec((any::<u16>(), any::<u8>(), any::<u8>()), 0..4), 0u8..10, 0u8..8, 0u8..8).prop_map(|(t, ops, do_mut, bom, crlf)| {
        // 40 % of the documents are mutated (mostly into invalid ones)
        let mut t = if do_mut < 4 { mutate(&t, &ops) } else { t };
        if crlf == 0 {
            t = t.replace("\r\n", "\n").replace('\n', "\r\n");
        }
        if bom == 0 && !t.starts_with(BOM) {
            t.insert(0, BOM);
        }
        t
    })
}

fn arb_agree() -> impl Strategy<Value = Case> + Clone + use<> {
    (arb_text(), prop::sample::select(TGTS.to_vec()), 0u8..(2 * N_OPTS), arb_sched_kind()).prop_map(|(doc, target, o, sk)| {
        let sched = make_sched(&sk, &doc);
        // half of the cases use the plain entry points
        let opts = if o >= N_OPTS { 0 } else { o };
        Case::Agree { doc, target, opts, sched }
    })
}
fn arb_bom() -> impl Strategy<Value = Case> + Clone + use<> {
    (arb_text(), prop::sample::select(TGTS.to_vec()), arb_sched_kind()).prop_map(|(doc, target, sk)| {
        let doc = doc.trim_start_matches(BOM).to_string();
        let with = format!("{BOM}{doc}");
        let mut sched = make_sched(&sk, &with);
        if let Sched::Cuts(c) = &mut sched {
            // also split the BOM itself now and then
            if c.len() % 2 == 0 {
                c.insert(0, 1);
                c.insert(1, 2);
                c.sort();
                c.dedup();
            }
        }
        Case::Bom { doc, target, sched }
    })
}

const TOKENS: [&str; 26] = ["a", "é", "😀", ":", " ", "-", "\n", "[", "]", ",", "\"", "'", "#", "&", "*", "|", ">", "?", "{", "}", "!", "~", "\r", "\t", "---", "..."];

fn corpus() -> Vec<String> {
    let mut v: Vec<String> = [
        "a: 1\nb: 2\n",
        "- é\n- 😀\n- 日本\n",
        "é: ü\n",
        "a: \"é\\u00e9\"\n",
        "k: |\n  日本\n  語\n",
        "k: >\n  fol\n  ded é\n\nz: 1\n",
        "- a\r\n- b\r\n",
        "a: 1\r\n\r\nb: 'x\r\n  y'\r\n",
        "a\rb: 1\r",
        "\u{FEFF}a: 1\n",
        "\u{FEFF}\u{FEFF}a: 1\n",
        "\u{FEFF}",
        "",
        "\n",
        "é",
        "😀",
        "- - - é\n",
        "a: [1, 2\n",
        "a: 1\n b: 2\n",
        "a: é: b\n",
        "😀: [é, {ü: ß}]\n",
        "\"é",
        "'😀",
        "a: &x é\nb: *x\nc: *y\n",
        "x: 1\nx: 2\n",
        "- é\n-😀\n",
        "-\té\n",
        "a:\t1\n",
        "? é\n: 😀\n",
        "---\né\n...\n",
        "é\n---\n😀\n",
        "# é only a comment\n",
        "a: 1 # é\nb: 2 # 😀\n",
        "!!str é\n",
        "!é 1\n",
        "a: !!binary 6Q==\n",
        "[é, 😀",
        "{é: 1, é: 2}\n",
        "a: 'é''ü'\n",
        "a: \"é\\\n  ü\"\n",
        "key with spaces é: v\n",
        "- é: 1\n  ü: 2\n- ß\n",
        "\u{85}a: 1\n",
        "a:\u{2028}1\n",
        "a: \u{a0}b\n",
        "\u{feff}é: \u{feff}ü\n",
        "? a\n:a # cé\n# 中",
        "a: 1 # é\n# 中\n",
        "[a # é",
    ]
    .iter()
    .map(|s| s.to_string())
    .collect();
    // a document longer than the reader's buffers, with multi-byte text across the 8 KiB marks
    let mut big = String::new();
    let mut i = 0;
    while big.len() < 20_000 {
        big.push_str(&format!("k{i}: väl{i}😀\n"));
        i += 1;
    }
    v.push(big.clone());
    big.push_str("bad: [\n");
    v.push(big);
    v
}

// ------------------------------------------------------------------------------------------

fn case_text(c: &Case) -> String {
    match c {
        Case::Agree { doc, .. } => doc.clone(),
        Case::Bom { doc, .. } => format!("{BOM}{doc}"),
        Case::Borrow { d } | Case::Lend { d, .. } => d.render().text,
    }
}

thread_local! {
    /// generator-side distribution (flushed into the evidence at the end of `generate`)
    static TALLY: RefCell<BTreeMap<&'static str, u64>> = const { RefCell::new(BTreeMap::new()) };
}
fn tally(name: &'static str) {
    TALLY.with(|t| *t.borrow_mut().entry(name).or_insert(0) += 1);
}

/// Non-triviality rule; also tallies the generator's distribution.
fn nontrivial(c: &Case) -> bool {
    // a multi-byte character split by the schedule, or an error located after a multi-byte character
    match c {
        Case::Agree { doc, target, opts, sched } => {
            let split = sched.splits_char(doc);
            let base = run(Ep::FromStr, *target, doc, *opts, sched, &mut false);
            let after = !doc.is_ascii() && after_multibyte(doc, &base);
            tally(if matches!(base, Sum::Err { .. }) { "agree: document is an error for the target" } else { "agree: document accepted by the target" });
            if split {
                tally("agree: a read boundary inside a multi-byte character");
            }
            if after {
                tally("agree: error located after a multi-byte character");
            }
            if doc.starts_with(BOM) {
                tally("agree: document starts with a BOM");
            }
            if doc.contains("\r\n") {
                tally("agree: CRLF");
            }
            if !doc.is_ascii() {
                tally("agree: multi-byte text");
            }
            tally(match sched {
                Sched::All => "agree: schedule all-at-once",
                Sched::Fixed(1) => "agree: schedule 1 byte",
                Sched::Fixed(_) => "agree: schedule fixed k",
                Sched::Cuts(_) => "agree: schedule explicit cuts (random / adversarial / exhaustive)",
            });
            split || after
        }
        Case::Bom { doc, sched, .. } => {
            let split = sched.splits_char(&format!("{BOM}{doc}"));
            let in_bom = sched.cuts(doc.len() + 3).iter().any(|&c| c < 3);
            if in_bom {
                tally("bom: a read boundary inside the BOM");
            }
            split
        }
        Case::Borrow { d } => {
            let r = d.render();
            let t = r.lend.iter().any(|l| *l == Lendable::Transformed);
            let f = r.lend.iter().any(|l| *l == Lendable::Free);
            tally(if t { "borrow: has a transformed scalar (must fail)" } else if f { "borrow: verbatim + block scalars (free)" } else { "borrow: verbatim everywhere (must lend)" });
            !r.text.is_ascii()
        }
        Case::Lend { d, sched } => sched.splits_char(&d.render().text),
    }
}

/// A tag handle (`!!` or `!name!`) that is not followed by a tag character (empty suffix).  The
/// parser dependency scans tags with two different routines: the one for in-memory input
/// accepts this (and the error "handle wasn't declared", if any, surfaces later, at parse
/// time), the one for streaming input rejects it at scan time.
fn empty_tag_suffix(doc: &str) -> bool {
    let b = doc.as_bytes();
    for i in 0..b.len() {
        if b[i] != b'!' {
            continue;
        }
        let mut j = i + 1;
        // (the scanner's word characters: letters, digits, `-` and `_`)
        while j < b.len() && (b[j].is_ascii_alphanumeric() || b[j] == b'-' || b[j] == b'_') {
            j += 1;
        }
        if j < b.len() && b[j] == b'!' {
            match b.get(j + 1) {
                None => return true,
                // (NUL ends the input for the scanner, like the end of the text)
                Some(c) if matches!(c, b' ' | b'\t' | b'\n' | b'\r' | b',' | b'[' | b']' | b'{' | b'}' | 0) => return true,
                _ => {}
            }
        }
    }
    false
}

/// The text after the last line break holds a comment with a multi-byte character and runs to
/// the end of input.  The parser dependency advances the column by *bytes* over comment text
/// for streaming input (by characters for in-memory input); the only position on the same
/// line after a comment is the end of input, so only errors located there differ.
fn multibyte_comment_at_eof(doc: &str) -> bool {
    // (a NUL ends the input for the parser: what follows it is never scanned)
    let doc = doc.split('\0').next().unwrap_or("");
    let last = doc.rsplit(['\n', '\r']).next().unwrap_or("");
    // a comment starts at a '#' at the beginning of the line or after a blank
    let b = last.as_bytes();
    (0..b.len()).any(|i| b[i] == b'#' && (i == 0 || b[i - 1] == b' ' || b[i - 1] == b'\t') && !last[i..].is_ascii())
}

struct C09;

impl C09 {
    fn submit(ctx: &mut Ctx<Self>, sub: &str, c: &Case) {
        let text = case_text(c);
        if !matches!(c, Case::Borrow { .. }) && iofault::percent_tail(text.as_bytes()) {
            ctx.class("skipped: reader_percent_eof (open C01 finding)");
            return;
        }
        let nt = nontrivial(c);
        ctx.case(sub, c, nt);
    }
}

impl Property for C09 {
    const ID: &'static str = "C09";
    type Case = Case;

    fn rule() -> String {
        "Agree: documents (G-doc trees of assorted shapes with anchors/aliases and layouts, generated configuration structs with deviations, string documents in every scalar style, a crafted corpus incl. a 20 kB document; 40 % mutated into mostly invalid text; multi-byte text, BOM, CRLF) x target types (untyped tree, typed struct family, String trees) x 7 option vectors x read schedules (1 byte; fixed 2,3,4,5,7; random cuts; adversarial cuts inside every multi-byte character, between CR and LF, after '-' and ':'; everything at once); exhaustively ALL 2^(n-1) partitions of every string of <= 3 tokens and <= 11 bytes over a 26-token alphabet that contains a multi-byte token. Oracle: from_slice, with_deserializer_from_str/slice, from_reader and with_deserializer_from_reader give the same Ok value (Debug text) as from_str, or an Err of the same variant at the same line and column. Bom: every entry point on BOM+doc equals itself on doc. Borrow: documents whose scalars carry a generator-known lendability (verbatim / transformed / block scalar = free): &str targets (Vec<&str>, HashMap<&str,&str>, struct of &str) through from_str, from_slice and the closure helpers succeed iff no scalar is transformed, every &str lies inside the input buffer and equals the String result; Cow<str> with #[serde(borrow)] always equals the String result. Lend: reader entry points never call visit_borrowed_str (deserialize_str / deserialize_string / deserialize_any leaves) and equal their in-memory twins. Non-trivial: a read boundary inside a multi-byte character, or an error located after a multi-byte character (Agree); Borrow documents with multi-byte text. distinct = distinct (document, schedule, target, options).".into()
    }
    fn assumptions() -> Vec<String> {
        vec![
            "error byte offsets / spans are not compared (documented as absent for readers); only variant, line, column".into(),
            "values are compared through their Debug text".into(),
            "texts ending in a line that starts with '%' are never fed to a reader (open C01 finding: hang)".into(),
            "block scalars (| and >) are neither required nor forbidden to be lent (the docs only promise simple plain/quoted scalars and only exclude escapes and folding)".into(),
            "readers never return 0 before the end of input and never fail".into(),
        ]
    }
    fn selfcheck() -> Result<(), String> {
        iofault::selfcheck()?;
        // renderer ground truth on a fixed document
        let d = BDoc {
            shape: Shape::Seq,
            items: vec![
                Sc { words: vec![2, 3], style: Style::Plain },
                Sc { words: vec![1], style: Style::SingleQQ },
                Sc { words: vec![0, 1], style: Style::PlainMulti },
                Sc { words: vec![5], style: Style::Anchored },
                Sc { words: vec![], style: Style::Alias },
                Sc { words: vec![4], style: Style::LiteralKeep },
            ],
            flow: false,
            crlf: false,
            bom: false,
            comments: false,
        };
        let r = d.render();
        let want = "- word é\n- 'bc''s'\n- a\n  bc\n- &a3 日本\n- *a3\n- |\n  naïve\n";
        if r.text != want {
            return Err(format!("renderer: {:?}", r.text));
        }
        if r.values != ["word é", "bc's", "a bc", "日本", "日本", "naïve\n"] {
            return Err(format!("renderer values: {:?}", r.values));
        }
        Ok(())
    }

    fn check(c: &Case) -> Outcome {
        match c {
            Case::Agree { doc, target, opts, sched } => check_agree(doc, *target, *opts, sched),
            Case::Bom { doc, target, sched } => check_bom(doc, *target, sched),
            Case::Borrow { d } => check_borrow(d),
            Case::Lend { d, sched } => check_lend(d, sched),
        }
    }

    fn signatures(c: &Case) -> Vec<&'static str> {
        if std::env::var_os("VCHECK_NOSIG").is_some() {
            return vec![];
        }
        let two_boms = matches!(c, Case::Agree { doc, .. } if doc.starts_with("\u{FEFF}\u{FEFF}"));
        let mut v = vec![];
        if two_boms {
            v.push("double_bom");
        }
        if let Case::Agree { doc, .. } | Case::Bom { doc, .. } = c {
            if empty_tag_suffix(doc) {
                v.push("empty_tag_suffix");
            }
            if multibyte_comment_at_eof(doc) {
                v.push("multibyte_comment_at_eof");
            }
        }
        v
    }

    fn shrink(c: &Case) -> Vec<Case> {
        let mut out = vec![];
        let text_shrinks = |doc: &str| -> Vec<String> {
            let mut v = vec![];
            if doc.len() > 400 {
                return v;
            }
            let lines: Vec<&str> = doc.split_inclusive('\n').collect();
            if lines.len() > 1 {
                for i in 0..lines.len() {
                    v.push(lines.iter().enumerate().filter(|(j, _)| *j != i).map(|(_, l)| *l).collect());
                }
            }
            let chars: Vec<char> = doc.chars().collect();
            if chars.len() <= 60 {
                for i in 0..chars.len() {
                    v.push(chars.iter().enumerate().filter(|(j, _)| *j != i).map(|(_, c)| *c).collect());
                }
            }
            v
        };
        match c {
            Case::Agree { doc, target, opts, sched } => {
                if *opts != 0 {
                    out.push(Case::Agree { doc: doc.clone(), target: *target, opts: 0, sched: sched.clone() });
                }
                if *target != Tgt::U {
                    out.push(Case::Agree { doc: doc.clone(), target: Tgt::U, opts: *opts, sched: sched.clone() });
                }
                for s in [Sched::All, Sched::Fixed(1)] {
                    if *sched != s {
                        out.push(Case::Agree { doc: doc.clone(), target: *target, opts: *opts, sched: s });
                    }
                }
                for d in text_shrinks(doc) {
                    let s = match sched {
                        Sched::Cuts(_) => Sched::Fixed(1),
                        s => s.clone(),
                    };
                    out.push(Case::Agree { doc: d, target: *target, opts: *opts, sched: s });
                }
            }
            Case::Bom { doc, target, sched } => {
                if *target != Tgt::U {
                    out.push(Case::Bom { doc: doc.clone(), target: Tgt::U, sched: sched.clone() });
                }
                if *sched != Sched::All {
                    out.push(Case::Bom { doc: doc.clone(), target: *target, sched: Sched::All });
                }
                for d in text_shrinks(doc) {
                    out.push(Case::Bom { doc: d, target: *target, sched: Sched::All });
                }
            }
            Case::Borrow { d } | Case::Lend { d, .. } => {
                let rebuild = |nd: BDoc| match c {
                    Case::Borrow { .. } => Case::Borrow { d: nd },
                    Case::Lend { sched, .. } => Case::Lend { d: nd, sched: sched.clone() },
                    _ => unreachable!(),
                };
                for i in 0..d.items.len() {
                    let mut nd = d.clone();
                    nd.items.remove(i);
                    out.push(rebuild(nd));
                }
                for flag in 0..4 {
                    let mut nd = d.clone();
                    match flag {
                        0 if nd.flow => nd.flow = false,
                        1 if nd.crlf => nd.crlf = false,
                        2 if nd.bom => nd.bom = false,
                        3 if nd.comments => nd.comments = false,
                        _ => continue,
                    }
                    out.push(rebuild(nd));
                }
                for i in 0..d.items.len() {
                    if d.items[i].words.len() > 1 {
                        let mut nd = d.clone();
                        nd.items[i].words.truncate(1);
                        out.push(rebuild(nd));
                    }
                    if d.items[i].style != Style::Plain {
                        let mut nd = d.clone();
                        nd.items[i].style = Style::Plain;
                        out.push(rebuild(nd));
                    }
                }
            }
        }
        out
    }

    /// libFuzzer input: kind (agree / bom), target, options, schedule, then the document text
    fn fuzz_decode(data: &[u8]) -> Option<(&'static str, Case, bool)> {
        let mut b = engine::Bytes::new(data);
        let bom = b.below(4) == 0;
        let target = b.pick(&TGTS);
        let o = b.below(2 * N_OPTS as usize) as u8;
        let opts = if o >= N_OPTS { 0 } else { o };
        let sk = match b.below(6) {
            0 => SchedKind::One,
            1 => SchedKind::Fixed(b.pick(&[2usize, 3, 4, 5, 7])),
            2 => {
                let n = b.below(12);
                SchedKind::Random((0..n).map(|_| b.u16()).collect())
            }
            3 | 4 => SchedKind::Adversarial,
            _ => {
                let n = 1 + b.below(5);
                SchedKind::AdversarialPlus((0..n).map(|_| b.u16()).collect())
            }
        };
        let doc = String::from_utf8_lossy(b.take(240)).into_owned();
        let c = if bom {
            let doc = doc.trim_start_matches(BOM).to_string();
            let with = format!("{BOM}{doc}");
            Case::Bom { sched: make_sched(&sk, &with), doc, target }
        } else {
            Case::Agree { sched: make_sched(&sk, &doc), doc, target, opts }
        };
        if iofault::percent_tail(case_text(&c).as_bytes()) || matches!(&c, Case::Agree { doc, .. } | Case::Bom { doc, .. } if iofault::percent_tail(doc.as_bytes())) {
            return None; // reader hang of the parser dependency (open C01 finding)
        }
        let nt = nontrivial(&c);
        Some((if bom { "fuzz-bom" } else { "fuzz-agree" }, c, nt))
    }
    fn generate(ctx: &mut Ctx<Self>) {
        let thorough = ctx.tier == engine::Tier::Thorough;
        let mut idx = 0u64;

        // ---- all partitions of short token strings with a multi-byte token ---------------------
        let mut n_docs = 0u64;
        let mut n_parts = 0u64;
        let nt = TOKENS.len();
        let mut token_docs: Vec<String> = vec![];
        for a in 0..nt {
            token_docs.push(TOKENS[a].to_string());
            for b in 0..nt {
                token_docs.push(format!("{}{}", TOKENS[a], TOKENS[b]));
                for c in 0..nt {
                    token_docs.push(format!("{}{}{}", TOKENS[a], TOKENS[b], TOKENS[c]));
                }
            }
        }
        for doc in &token_docs {
            if doc.is_ascii() || doc.len() > 11 {
                continue;
            }
            if iofault::percent_tail(doc.as_bytes()) {
                continue;
            }
            n_docs += 1;
            let n = doc.len();
            let masks = 1u64 << (n - 1);
            n_parts += masks;
            for mask in 0..masks {
                idx += 1;
                if !ctx.mine(idx) {
                    continue;
                }
                let c = Case::Agree { doc: doc.clone(), target: Tgt::U, opts: 0, sched: Sched::from_mask(mask, n) };
                Self::submit(ctx, "agree-all-partitions-short-token-docs", &c);
            }
        }
        ctx.subspace("token strings (<= 3 tokens of 26, <= 11 bytes, with a multi-byte token)", n_docs, true);
        ctx.subspace("(token string, partition) pairs: all 2^(n-1) partitions each", n_parts, true);

        // ---- corpus x schedule family x targets ----------------------------------------------------
        for doc in corpus() {
            let mut scheds = vec![Sched::All, Sched::Fixed(1), Sched::Fixed(2), Sched::Fixed(3), Sched::Fixed(4), Sched::Fixed(5), Sched::Fixed(7), Sched::Cuts(iofault::adversarial_cuts(&doc))];
            if doc.len() > 10_000 {
                // boundaries around the 8 KiB buffer marks
                scheds.push(Sched::Cuts(vec![8191, 8192, 8193, 16383, 16384, 16385]));
                scheds.push(Sched::Fixed(8191));
                scheds.push(Sched::Fixed(4097));
            }
            for sched in scheds {
                for &target in &TGTS {
                    if doc.len() > 10_000 && !matches!(target, Tgt::U | Tgt::MapSS) {
                        continue;
                    }
                    for opts in 0..N_OPTS {
                        idx += 1;
                        if !ctx.mine(idx) {
                            continue;
                        }
                        let c = Case::Agree { doc: doc.clone(), target, opts, sched: sched.clone() };
                        Self::submit(ctx, "agree-corpus", &c);
                    }
                    idx += 1;
                    if ctx.mine(idx) && doc.len() < 10_000 && !doc.starts_with(BOM) {
                        let with = format!("{BOM}{doc}");
                        let s2 = match &sched {
                            Sched::Cuts(_) => {
                                let mut c = iofault::adversarial_cuts(&with);
                                c.insert(0, 1);
                                c.insert(1, 2);
                                c.sort();
                                c.dedup();
                                Sched::Cuts(c)
                            }
                            s => s.clone(),
                        };
                        let c = Case::Bom { doc: doc.clone(), target, sched: s2 };
                        Self::submit(ctx, "bom-corpus", &c);
                    }
                }
            }
        }

        // ---- random documents -------------------------------------------------------------------------
        let hazard_free = |c: &Case| !iofault::percent_tail(case_text(c).as_bytes()) && !matches!(c, Case::Agree{doc, ..} | Case::Bom{doc, ..} if iofault::percent_tail(doc.as_bytes()));
        let strat = arb_agree().prop_filter("reader_percent_eof", hazard_free);
        ctx.run_strategy("agree-random", 1, ctx.tier.pick(30_000, 600_000), &strat, nontrivial);
        let strat = arb_bom().prop_filter("reader_percent_eof", hazard_free);
        ctx.run_strategy("bom-random", 2, ctx.tier.pick(8_000, 100_000), &strat, nontrivial);

        // ---- borrowing --------------------------------------------------------------------------------
        // every style alone and every ordered pair of styles, in each shape
        let mut small: Vec<BDoc> = vec![];
        for shape in [Shape::Seq, Shape::Map, Shape::Struct] {
            for flow in [false, true] {
                for (i, s1) in VALUE_STYLES.iter().enumerate() {
                    for nw in 0..3u8 {
                        let w: Vec<u8> = (0..nw).map(|k| (i as u8 + 3 * k) % WORDS.len() as u8).collect();
                        let first = Sc { words: w.clone(), style: *s1 };
                        let filler = Sc { words: vec![7], style: Style::Plain };
                        small.push(BDoc { shape, items: vec![filler.clone(), first.clone()], flow, crlf: false, bom: false, comments: false });
                        for (j, s2) in VALUE_STYLES.iter().enumerate() {
                            let second = Sc { words: vec![(j as u8 + 1) % WORDS.len() as u8, 3], style: *s2 };
                            small.push(BDoc { shape, items: vec![first.clone(), second.clone(), filler.clone(), Sc { words: vec![2], style: Style::Anchored }, Sc { words: vec![], style: Style::Alias }], flow, crlf: (i + j) % 3 == 0, bom: (i + j) % 4 == 0, comments: (i + j) % 2 == 0 });
                        }
                    }
                }
            }
        }
        ctx.subspace("borrow: shapes x flow x every style (0..2 words) alone and every ordered pair of styles", small.len() as u64, true);
        for d in small {
            idx += 1;
            if !ctx.mine(idx) {
                continue;
            }
            let c = Case::Borrow { d: d.clone() };
            Self::submit(ctx, "borrow-style-pairs", &c);
            for sched in [Sched::Fixed(1), Sched::All] {
                let text = d.render().text;
                let c = Case::Lend { d: d.clone(), sched: if sched == Sched::All { Sched::Cuts(iofault::adversarial_cuts(&text)) } else { sched } };
                Self::submit(ctx, "reader-never-lends-style-pairs", &c);
            }
        }
        let strat = arb_bdoc().prop_map(|d| Case::Borrow { d });
        ctx.run_strategy("borrow-random", 3, ctx.tier.pick(20_000, 300_000), &strat, nontrivial);
        let strat = (arb_bdoc(), arb_sched_kind()).prop_map(|(d, sk)| {
            let text = d.render().text;
            Case::Lend { sched: make_sched(&sk, &text), d }
        });
        ctx.run_strategy("reader-never-lends-random", 4, ctx.tier.pick(5_000, 100_000), &strat, nontrivial);
        let _ = thorough;
        let t = TALLY.with(|t| std::mem::take(&mut *t.borrow_mut()));
        for (k, v) in t {
            ctx.class_n(k, v);
        }
    }
}

fn main() {
    let args: Vec<String> = std::env::args().collect();
    if args.get(1).map(|s| s.as_str()) == Some("probe") {
        // development aid: c09 probe <file> – all entry points on the file's text
        engine::install_panic_hook();
        let text = std::fs::read_to_string(&args[2]).unwrap();
        for ep in MEM_EPS.iter().chain(RD_EPS.iter()) {
            println!("{:?}: {}", ep, run(*ep, Tgt::U, &text, 0, &Sched::Fixed(1), &mut false));
        }
        return;
    }
    engine::main::<C09>()
}

/// entry point of the libFuzzer target `fuzz/fuzz_targets/c09.rs`
#[allow(dead_code)]
pub fn fuzz(data: &[u8]) {
    engine::fuzz_one::<C09>(data)
}
