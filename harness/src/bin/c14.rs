//! C14 – shared-pointer topology survives the round trip through anchors and aliases.
//!
//! A case is a *description* of an object graph (never the graph itself): allocations with a
//! payload id, strong child edges forming a DAG (child index > parent index), optional shared
//! `String` leaves, weak edges, the position of every occurrence (sequence item / map value /
//! field of a nested struct), the pointer family (Rc / Arc) and whether the graph is built from
//! the DAG wrappers (`RcAnchor`/`RcWeakAnchor`) or from the recursive wrappers
//! (`RcRecursive`/`RcRecursion`, where weak links may point to a node that is still open: self
//! loops, parent pointers, rings).  `check` materialises the graph, serialises it, reads it back
//! and compares pointer-equality classes.
use proptest::prelude::*;
use serde::{Deserialize, Serialize};
use serde_saphyr::{
    ArcAnchor, ArcRecursion, ArcRecursive, ArcWeakAnchor, RcAnchor, RcRecursion, RcRecursive, RcWeakAnchor,
};
use std::cell::RefCell;
use std::collections::{BTreeMap, HashMap};
use std::rc::Rc;
use std::sync::{Arc, Mutex};
use vcheck::engine::{self, pick_idx, Ctx, Outcome, Property, Tier};
use vcheck::opts::SerOpts;

// ------------------------------------------------------------------------------------------
// case description

#[derive(Clone, Copy, Debug, Serialize, Deserialize, PartialEq, Eq, PartialOrd, Ord)]
enum Kind {
    RcDag,
    ArcDag,
    RcRec,
    ArcRec,
    /// fixed small graphs whose shared payload is not a struct: null / unit, enum variants,
    /// sequences, flow wrappers, a wrapper directly inside a wrapper (`nodes[0].id` = shape)
    Payload,
}
impl Kind {
    fn is_rec(self) -> bool {
        matches!(self, Kind::RcRec | Kind::ArcRec)
    }
}

/// where a strong occurrence sits inside its parent
#[derive(Clone, Copy, Debug, Serialize, Deserialize, PartialEq, Eq)]
enum Pos {
    /// item of the `kids` sequence
    Seq,
    /// value of the `named` map
    Map,
    /// field `fa` / `fb` of the nested struct `slots` (at most two per node)
    Field,
}

/// where a weak occurrence sits inside its parent
#[derive(Clone, Copy, Debug, Serialize, Deserialize, PartialEq, Eq)]
enum WPos {
    /// item of the `weak` (DAG) / `links` (recursive) sequence, serialised after the strong fields
    Seq,
    /// DAG kinds: value of the `wmap` map; recursive kinds: item of the `pre` sequence, which is
    /// serialised *before* the strong fields
    Map,
    /// the `up: Option<link>` field (recursive kinds only; at most one per node; serialised before
    /// the strong fields)
    Up,
}

#[derive(Clone, Debug, Serialize, Deserialize, PartialEq, Eq)]
struct Edge {
    to: usize,
    pos: Pos,
}

#[derive(Clone, Debug, Serialize, Deserialize, PartialEq, Eq)]
struct WeakE {
    /// target allocation; `None` = the target has been dropped (dangling weak)
    to: Option<usize>,
    pos: WPos,
}

#[derive(Clone, Debug, Serialize, Deserialize, PartialEq, Eq)]
struct NodeD {
    id: u32,
    strong: Vec<Edge>,
    /// index into `Case::leaves` (DAG kinds only)
    leaf: Option<usize>,
    weak: Vec<WeakE>,
}

#[derive(Clone, Debug, Serialize, Deserialize, PartialEq, Eq)]
struct Case {
    kind: Kind,
    /// node 0 is the document root
    nodes: Vec<NodeD>,
    /// payloads of the shared string allocations
    leaves: Vec<String>,
    /// the document root itself is a wrapper (`&a1` on the root node)
    root_wrapped: bool,
    /// serializer options (None = defaults)
    #[serde(default)]
    opts: Option<SerOpts>,
    /// read back the text a person would write: the `&name` of every node that is never
    /// referenced by an alias is removed from the emitted text before it is deserialised
    #[serde(default)]
    strip: bool,
}

// ------------------------------------------------------------------------------------------
// model: serialisation-order traversal of the description

#[derive(Clone, Copy, PartialEq, Eq)]
enum St {
    Unseen,
    Open,
    Done,
}

/// one wrapper occurrence in serialisation order: (kind, class) with kind 'S' strong node,
/// 'L' strong leaf, 'W' weak; class = index in first-sight order, -1 = dangling
type Occ = (char, i32);

struct Model {
    occ: Vec<Occ>,
    /// predicted `&aN` / `*aN` tokens of the emitted text
    tokens: Vec<String>,
    /// allocation order in which nodes complete (children / weak targets first)
    post_order: Vec<usize>,
    classes: usize,
    class_sizes: Vec<usize>,
    cycle: bool,
    /// length of the longest ring closed by a weak link to an open node (1 = self loop)
    max_ring: usize,
    live_weak: usize,
    dangling: usize,
    dangling_in_map: usize,
    /// `up: Option<link>` fields whose target is still open
    open_up: usize,
    /// class of the wrapper node inside which a class is first met (None: directly in the unwrapped root)
    class_parent: Vec<Option<usize>>,
}
impl Model {
    /// a wrapper that no alias refers to sits inside a wrapper node that aliases do refer to
    fn unshared_inside_shared(&self) -> bool {
        (0..self.classes).any(|k| {
            if self.class_sizes[k] != 1 {
                return false;
            }
            let mut a = self.class_parent[k];
            while let Some(x) = a {
                if self.class_sizes[x] >= 2 {
                    return true;
                }
                a = self.class_parent[x];
            }
            false
        })
    }
}

struct Sim<'a> {
    c: &'a Case,
    st: Vec<St>,
    node_class: Vec<Option<usize>>,
    leaf_class: Vec<Option<usize>>,
    path: Vec<usize>,
    m: Model,
}

impl<'a> Sim<'a> {
    fn first(&mut self, kind: char) -> usize {
        let k = self.m.classes;
        self.m.classes += 1;
        self.m.class_sizes.push(1);
        let enclosing = self.path.iter().rev().find_map(|&i| self.node_class[i]);
        self.m.class_parent.push(enclosing);
        self.m.occ.push((kind, k as i32));
        self.m.tokens.push(format!("&a{}", k + 1));
        k
    }
    fn again(&mut self, kind: char, k: usize) {
        self.m.class_sizes[k] += 1;
        self.m.occ.push((kind, k as i32));
        self.m.tokens.push(format!("*a{}", k + 1));
    }
    fn strong(&mut self, j: usize) -> Result<(), &'static str> {
        match self.node_class[j] {
            Some(k) => {
                if self.st[j] == St::Open {
                    return Err("strong edge to an open node");
                }
                self.again('S', k);
            }
            None => {
                let k = self.first('S');
                self.node_class[j] = Some(k);
                self.visit(j)?;
            }
        }
        Ok(())
    }
    fn weak(&mut self, w: &WeakE) -> Result<(), &'static str> {
        let rec = self.c.kind.is_rec();
        match w.to {
            None => {
                if rec && w.pos == WPos::Up {
                    // (an Option field: `null` reads back as None, not as Some(dangling))
                    return Err("dangling link in an Option field is not generated");
                }
                self.m.occ.push(('W', -1));
                self.m.dangling += 1;
                if w.pos == WPos::Map {
                    self.m.dangling_in_map += 1;
                }
            }
            Some(t) => {
                if t >= self.c.nodes.len() || (t == 0 && !self.c.root_wrapped) {
                    return Err("weak edge to a node that is not an allocation");
                }
                // anchors.rs module doc: "the strong anchor must be fully parsed before any of
                // its aliases (weak anchors) are encountered"; the recursive wrappers "allow an
                // object to be referenced via an alias before it has been fully deserialized"
                match self.st[t] {
                    St::Done => {}
                    St::Open if rec => {
                        self.m.cycle = true;
                        if w.pos == WPos::Up {
                            self.m.open_up += 1;
                        }
                        let d = self.path.iter().rev().position(|&x| x == t).unwrap_or(0) + 1;
                        self.m.max_ring = self.m.max_ring.max(d);
                    }
                    _ => return Err("weak occurrence before its strong occurrence"),
                }
                let k = self.node_class[t].ok_or("weak target without class")?;
                self.again('W', k);
                self.m.live_weak += 1;
            }
        }
        Ok(())
    }
    fn visit(&mut self, i: usize) -> Result<(), &'static str> {
        let c = self.c;
        let d = &c.nodes[i];
        let rec = c.kind.is_rec();
        self.st[i] = St::Open;
        self.path.push(i);
        if d.strong.iter().filter(|e| e.pos == Pos::Field).count() > 2 {
            return Err("more than two Field edges");
        }
        if rec {
            if d.leaf.is_some() {
                return Err("leaf in a recursive graph");
            }
            if d.weak.iter().filter(|w| w.pos == WPos::Up).count() > 1 {
                return Err("more than one Up link");
            }
            for p in [WPos::Map, WPos::Up] {
                for w in d.weak.iter().filter(|w| w.pos == p) {
                    self.weak(w)?;
                }
            }
        } else if d.weak.iter().any(|w| w.pos == WPos::Up) {
            return Err("Up link in a DAG graph");
        }
        for p in [Pos::Field, Pos::Seq, Pos::Map] {
            for e in d.strong.iter().filter(|e| e.pos == p) {
                if e.to <= i || e.to >= c.nodes.len() {
                    return Err("strong edge not to a later node");
                }
                self.strong(e.to)?;
            }
        }
        if let Some(l) = d.leaf {
            if l >= c.leaves.len() {
                return Err("leaf index out of range");
            }
            match self.leaf_class[l] {
                Some(k) => self.again('L', k),
                None => {
                    let k = self.first('L');
                    self.leaf_class[l] = Some(k);
                }
            }
        }
        for p in [WPos::Seq, WPos::Map] {
            if rec && p == WPos::Map {
                continue;
            }
            for w in d.weak.iter().filter(|w| w.pos == p) {
                self.weak(w)?;
            }
        }
        self.path.pop();
        self.st[i] = St::Done;
        self.m.post_order.push(i);
        Ok(())
    }
}

fn simulate(c: &Case) -> Result<Model, &'static str> {
    if c.nodes.is_empty() {
        return Err("no root");
    }
    if c.nodes.len() > 64 {
        return Err("too many nodes");
    }
    let mut s = Sim {
        c,
        st: vec![St::Unseen; c.nodes.len()],
        node_class: vec![None; c.nodes.len()],
        leaf_class: vec![None; c.leaves.len()],
        path: vec![],
        m: Model {
            occ: vec![],
            tokens: vec![],
            post_order: vec![],
            classes: 0,
            class_sizes: vec![],
            cycle: false,
            max_ring: 0,
            live_weak: 0,
            dangling: 0,
            dangling_in_map: 0,
            open_up: 0,
            class_parent: vec![],
        },
    };
    if c.root_wrapped {
        let k = s.first('S');
        s.node_class[0] = Some(k);
    }
    s.visit(0)?;
    if s.st.iter().any(|x| *x != St::Done) {
        return Err("unreachable node");
    }
    if s.m.occ.len() > 400 {
        return Err("too many occurrences");
    }
    Ok(s.m)
}

/// number of nodes of the tree expansion (with weak copies), saturating
fn expansion_size(c: &Case) -> u64 {
    let n = c.nodes.len();
    let mut size = vec![0u64; n];
    // weak targets can have any index: iterate to a fixed point over the (acyclic for DAG kinds)
    // dependency order given by post order of the simulation; simpler: memoised recursion
    fn go(c: &Case, i: usize, size: &mut Vec<u64>, depth: usize) -> u64 {
        if size[i] != 0 {
            return size[i];
        }
        if depth > 80 {
            return u64::MAX / 4;
        }
        let mut s = 1u64;
        for e in &c.nodes[i].strong {
            s = s.saturating_add(go(c, e.to, size, depth + 1));
        }
        for w in &c.nodes[i].weak {
            if let Some(t) = w.to {
                s = s.saturating_add(go(c, t, size, depth + 1));
            }
        }
        let s = s.min(u64::MAX / 4);
        size[i] = s;
        s
    }
    go(c, 0, &mut size, 0)
}

fn expansion_size_rec(c: &Case) -> u64 {
    let n = c.nodes.len();
    // strong-only subtree sizes (the strong edges of every kind form a DAG)
    fn strong(c: &Case, i: usize, memo: &mut Vec<u64>, depth: usize) -> u64 {
        if memo[i] != 0 {
            return memo[i];
        }
        if depth > 200 {
            return u64::MAX / 4;
        }
        let mut s = 1u64;
        for e in &c.nodes[i].strong {
            s = s.saturating_add(strong(c, e.to, memo, depth + 1));
        }
        memo[i] = s.min(u64::MAX / 4);
        memo[i]
    }
    let mut memo = vec![0u64; n];
    for i in 0..n {
        strong(c, i, &mut memo, 0);
    }
    // with the links: a link adds (at most) its target's strong subtree where it stands
    fn full(c: &Case, i: usize, st: &Vec<u64>, memo: &mut Vec<u64>, depth: usize) -> u64 {
        if memo[i] != 0 {
            return memo[i];
        }
        if depth > 200 {
            return u64::MAX / 4;
        }
        let mut s = 1u64;
        for e in &c.nodes[i].strong {
            s = s.saturating_add(full(c, e.to, st, memo, depth + 1));
        }
        for w in &c.nodes[i].weak {
            if let Some(t) = w.to {
                s = s.saturating_add(st[t]);
            }
        }
        memo[i] = s.min(u64::MAX / 4);
        memo[i]
    }
    let mut memo2 = vec![0u64; n];
    full(c, 0, &memo, &mut memo2, 0)
}

// ------------------------------------------------------------------------------------------
// plain mirror (no wrappers): the tree expansion

#[derive(Deserialize, Debug, PartialEq, Clone, Default)]
struct PSlots {
    fa: Option<Box<PNode>>,
    fb: Option<Box<PNode>>,
}
#[derive(Deserialize, Debug, PartialEq, Clone, Default)]
struct PNode {
    id: u32,
    slots: PSlots,
    kids: Vec<PNode>,
    named: BTreeMap<String, PNode>,
    leaf: Option<String>,
    weak: Vec<Option<PNode>>,
    wmap: BTreeMap<String, Option<PNode>>,
}

fn skey(k: usize) -> String {
    format!("k{k:02}")
}
fn wkey(k: usize) -> String {
    format!("w{k:02}")
}

/// expected plain reading of the document, computed from the description alone
fn expand(c: &Case, i: usize) -> PNode {
    let d = &c.nodes[i];
    let mut n = PNode { id: d.id, ..Default::default() };
    for (k, e) in d.strong.iter().enumerate() {
        let ch = expand(c, e.to);
        match e.pos {
            Pos::Field => {
                if n.slots.fa.is_none() {
                    n.slots.fa = Some(Box::new(ch));
                } else {
                    n.slots.fb = Some(Box::new(ch));
                }
            }
            Pos::Seq => n.kids.push(ch),
            Pos::Map => {
                n.named.insert(skey(k), ch);
            }
        }
    }
    n.leaf = d.leaf.map(|l| c.leaves[l].clone());
    for (k, w) in d.weak.iter().enumerate() {
        let v = w.to.map(|t| expand(c, t));
        match w.pos {
            WPos::Map => {
                n.wmap.insert(wkey(k), v);
            }
            _ => n.weak.push(v),
        }
    }
    n
}

/// leaf allocation indices of the tree expansion in reading order
fn expand_leaves(c: &Case, i: usize, out: &mut Vec<usize>) {
    let d = &c.nodes[i];
    for p in [Pos::Field, Pos::Seq, Pos::Map] {
        for e in d.strong.iter().filter(|e| e.pos == p) {
            expand_leaves(c, e.to, out);
        }
    }
    if let Some(l) = d.leaf {
        out.push(l);
    }
    for p in [WPos::Seq, WPos::Map] {
        for w in d.weak.iter().filter(|w| w.pos == p) {
            if let Some(t) = w.to {
                expand_leaves(c, t, out);
            }
        }
    }
}

fn first_sight_numbering<T: std::hash::Hash + Eq + Copy>(xs: &[T]) -> Vec<usize> {
    let mut m: HashMap<T, usize> = HashMap::new();
    xs.iter()
        .map(|x| {
            let n = m.len();
            *m.entry(*x).or_insert(n)
        })
        .collect()
}

// ------------------------------------------------------------------------------------------
// observation of a materialised graph

#[derive(Default, PartialEq, Debug)]
struct Canon {
    /// wrapper occurrences in traversal order with their pointer-equality class
    occ: Vec<Occ>,
    /// payload of an unwrapped root
    root: String,
    /// payload per class (first-sight order)
    payload: Vec<String>,
    /// strong count per class at first sight
    counts: Vec<usize>,
    /// recursive kinds: for every class the ids met by following the first weak link repeatedly
    walks: Vec<Vec<u32>>,
}
#[derive(Default)]
struct CanonSt {
    map: HashMap<usize, usize>,
    c: Canon,
}

/// the `&name` / `*name` tokens of the text, custom names `nKx` (SerOpts::anchors) mapped to `aK`
fn text_tokens(text: &str) -> Vec<String> {
    text.split_whitespace()
        .filter_map(|t| {
            let sigil = t.chars().next().filter(|c| *c == '&' || *c == '*')?;
            let name = &t[1..];
            let digits = if let Some(d) = name.strip_prefix('a') {
                d
            } else {
                name.strip_prefix('n')?.strip_suffix('x')?
            };
            if digits.is_empty() || !digits.bytes().all(|b| b.is_ascii_digit()) {
                return None;
            }
            Some(format!("{sigil}a{digits}"))
        })
        .collect()
}

fn diff_occ(before: &[Occ], after: &[Occ]) -> String {
    let i = before.iter().zip(after).position(|(a, b)| a != b).unwrap_or(before.len().min(after.len()));
    format!(
        "first difference at occurrence {i}: before {:?}, after {:?} (before {:?} / after {:?})",
        before.get(i),
        after.get(i),
        before,
        after
    )
}

/// the comparisons shared by all four kinds
fn compare(before: &Canon, after: &Canon, text: &str) -> Result<(), String> {
    if before.occ != after.occ {
        let bw: Vec<&Occ> = before.occ.iter().filter(|o| o.0 == 'W').collect();
        let aw: Vec<&Occ> = after.occ.iter().filter(|o| o.0 == 'W').collect();
        let what = if before.occ.len() != after.occ.len() {
            "number of wrapper occurrences differs"
        } else if bw.len() == aw.len() && bw.iter().zip(&aw).any(|(b, a)| (b.1 < 0) != (a.1 < 0)) {
            "weak reference changed between live and dangling"
        } else {
            "pointer-equality partition differs"
        };
        return Err(format!("{what}: {} (emitted {:?})", diff_occ(&before.occ, &after.occ), text));
    }
    if before.payload != after.payload || before.root != after.root {
        return Err(format!(
            "payloads differ: before {:?} {:?}, after {:?} {:?} (emitted {:?})",
            before.root, before.payload, after.root, after.payload, text
        ));
    }
    if before.walks != after.walks {
        return Err(format!(
            "following the restored links gives other ids: before {:?}, after {:?} (emitted {:?})",
            before.walks, after.walks, text
        ));
    }
    if before.counts != after.counts {
        return Err(format!(
            "strong counts differ (a reference is kept or lost somewhere): before {:?}, after {:?} (emitted {:?})",
            before.counts, after.counts, text
        ));
    }
    Ok(())
}

/// a String that refuses to grow beyond a limit, so that a serializer which writes a cyclic graph
/// over and over ends with an error (a verdict) instead of exhausting memory or stack
struct Bounded {
    s: String,
    limit: usize,
}
impl std::fmt::Write for Bounded {
    fn write_str(&mut self, x: &str) -> std::fmt::Result {
        if self.s.len() + x.len() > self.limit {
            return Err(std::fmt::Error);
        }
        self.s.push_str(x);
        Ok(())
    }
}

/// `to_string` / `to_string_with_options` (which are `to_fmt_writer*` on a String) with a 1 MiB cap;
/// the largest legitimate text of this generator is below 300 KiB
fn to_text<T: Serialize>(v: &T, o: &Option<SerOpts>) -> Result<String, serde_saphyr::ser::Error> {
    let mut w = Bounded { s: String::new(), limit: 1 << 20 };
    match o {
        None => serde_saphyr::to_fmt_writer(&mut w, v)?,
        Some(o) => serde_saphyr::to_fmt_writer_with_options(&mut w, v, o.build())?,
    }
    Ok(w.s)
}

/// the text with the definitions of never-referenced anchors removed (same YAML meaning)
fn strip_unreferenced(text: &str, m: &Model) -> String {
    let mut t = text.to_string();
    for (k, &size) in m.class_sizes.iter().enumerate() {
        if size != 1 {
            continue;
        }
        for name in [format!("&a{}", k + 1), format!("&n{}x", k + 1)] {
            for (pat, with) in [(format!("{name} "), ""), (format!("{name}\n"), "\n")] {
                if let Some(i) = t.find(&pat) {
                    t.replace_range(i..i + pat.len(), with);
                }
            }
        }
    }
    t
}

fn check_model(before: &Canon, m: &Model) -> Result<(), String> {
    // harness self-check: the materialised graph must have the topology the model predicts
    if before.occ != m.occ {
        return Err(format!("HARNESS BUG: materialised graph {:?} differs from the model {:?}", before.occ, m.occ));
    }
    Ok(())
}

fn check_text(text: &str, m: &Model) -> Result<(), String> {
    // README "Anchors": wrappers "emit anchors like `&a1` on first occurrence and may emit
    // aliases `*a1` later"; ser.rs module doc: "first sight => &a1, later sight => *a1"
    let got = text_tokens(text);
    if got != m.tokens {
        return Err(format!(
            "anchor/alias tokens of the emitted text differ from one definition per shared node: got {:?}, expected {:?} (emitted {:?})",
            got, m.tokens, text
        ));
    }
    Ok(())
}

// ------------------------------------------------------------------------------------------
// DAG families

macro_rules! dag_family {
    ($m:ident, $P:ident, $A:ident, $W:ident) => {
        mod $m {
            use super::*;
            #[derive(Serialize, Deserialize, Clone)]
            pub struct Slots {
                pub fa: Option<$A<Node>>,
                pub fb: Option<$A<Node>>,
            }
            // (Clone only because the wrappers' derived Clone asks for T: Clone; never used on nodes)
            #[derive(Serialize, Deserialize, Clone)]
            pub struct Node {
                pub id: u32,
                pub slots: Slots,
                pub kids: Vec<$A<Node>>,
                pub named: BTreeMap<String, $A<Node>>,
                pub leaf: Option<$A<String>>,
                pub weak: Vec<$W<Node>>,
                pub wmap: BTreeMap<String, $W<Node>>,
            }
            /// mixed mirror: plain nodes, wrapper leaves
            #[derive(Deserialize)]
            pub struct MSlots {
                fa: Option<Box<MNode>>,
                fb: Option<Box<MNode>>,
            }
            #[derive(Deserialize)]
            pub struct MNode {
                #[allow(dead_code)]
                id: u32,
                slots: MSlots,
                kids: Vec<MNode>,
                named: BTreeMap<String, MNode>,
                leaf: Option<$A<String>>,
                weak: Vec<Option<MNode>>,
                wmap: BTreeMap<String, Option<MNode>>,
            }
            fn blank(id: u32) -> Node {
                Node {
                    id,
                    slots: Slots { fa: None, fb: None },
                    kids: vec![],
                    named: BTreeMap::new(),
                    leaf: None,
                    weak: vec![],
                    wmap: BTreeMap::new(),
                }
            }
            fn make(c: &Case, i: usize, built: &[Option<$A<Node>>], leaves: &[$A<String>]) -> Node {
                let d = &c.nodes[i];
                let mut n = blank(d.id);
                for (k, e) in d.strong.iter().enumerate() {
                    let a = built[e.to].clone().expect("harness: child built before parent");
                    match e.pos {
                        Pos::Field => {
                            if n.slots.fa.is_none() {
                                n.slots.fa = Some(a);
                            } else {
                                n.slots.fb = Some(a);
                            }
                        }
                        Pos::Seq => n.kids.push(a),
                        Pos::Map => {
                            n.named.insert(skey(k), a);
                        }
                    }
                }
                n.leaf = d.leaf.map(|l| leaves[l].clone());
                for (k, w) in d.weak.iter().enumerate() {
                    let wk = match w.to {
                        Some(t) => {
                            $W($P::downgrade(&built[t].as_ref().expect("harness: weak target built before source").0))
                        }
                        None => {
                            let tmp = $P::new(blank(9999));
                            $W($P::downgrade(&tmp))
                        }
                    };
                    match w.pos {
                        WPos::Map => {
                            n.wmap.insert(wkey(k), wk);
                        }
                        _ => n.weak.push(wk),
                    }
                }
                n
            }
            /// returns (root node, root wrapper if the root is wrapped)
            fn build(c: &Case, m: &Model) -> (Option<Node>, Option<$A<Node>>) {
                let leaves: Vec<$A<String>> = c.leaves.iter().map(|s| $A($P::new(s.clone()))).collect();
                let mut built: Vec<Option<$A<Node>>> = vec![None; c.nodes.len()];
                for &i in &m.post_order {
                    if i == 0 {
                        continue;
                    }
                    let n = make(c, i, &built, &leaves);
                    built[i] = Some($A($P::new(n)));
                }
                let root = make(c, 0, &built, &leaves);
                if c.root_wrapped {
                    (None, Some($A($P::new(root))))
                } else {
                    (Some(root), None)
                }
            }
            fn strong(a: &$A<Node>, st: &mut CanonSt) {
                let p = $P::as_ptr(&a.0) as usize;
                match st.map.get(&p) {
                    Some(&k) => st.c.occ.push(('S', k as i32)),
                    None => {
                        let k = st.c.payload.len();
                        st.map.insert(p, k);
                        st.c.payload.push(format!(
                            "n{} named={:?} wmap={:?}",
                            a.0.id,
                            a.0.named.keys().collect::<Vec<_>>(),
                            a.0.wmap.keys().collect::<Vec<_>>()
                        ));
                        st.c.counts.push($P::strong_count(&a.0));
                        st.c.occ.push(('S', k as i32));
                        node(&a.0, st);
                    }
                }
            }
            fn weak(w: &$W<Node>, st: &mut CanonSt) {
                match w.0.upgrade() {
                    None => st.c.occ.push(('W', -1)),
                    Some(t) => {
                        let p = $P::as_ptr(&t) as usize;
                        match st.map.get(&p) {
                            Some(&k) => st.c.occ.push(('W', k as i32)),
                            None => {
                                // upgrades into an allocation that no strong occurrence has shown yet
                                let k = st.c.payload.len();
                                st.map.insert(p, k);
                                st.c.payload.push(format!("weak-only n{}", t.id));
                                st.c.counts.push($P::strong_count(&t) - 1);
                                st.c.occ.push(('W', k as i32));
                            }
                        }
                    }
                }
            }
            fn node(n: &Node, st: &mut CanonSt) {
                for a in [&n.slots.fa, &n.slots.fb].into_iter().flatten() {
                    strong(a, st);
                }
                for a in &n.kids {
                    strong(a, st);
                }
                for a in n.named.values() {
                    strong(a, st);
                }
                if let Some(l) = &n.leaf {
                    let p = $P::as_ptr(&l.0) as usize;
                    match st.map.get(&p) {
                        Some(&k) => st.c.occ.push(('L', k as i32)),
                        None => {
                            let k = st.c.payload.len();
                            st.map.insert(p, k);
                            st.c.payload.push(format!("s{:?}", &*l.0));
                            st.c.counts.push($P::strong_count(&l.0));
                            st.c.occ.push(('L', k as i32));
                        }
                    }
                }
                for w in &n.weak {
                    weak(w, st);
                }
                for w in n.wmap.values() {
                    weak(w, st);
                }
            }
            fn canon(root: &Option<Node>, wrapped: &Option<$A<Node>>) -> Canon {
                let mut st = CanonSt::default();
                if let Some(a) = wrapped {
                    strong(a, &mut st);
                } else if let Some(n) = root {
                    st.c.root = (format!(
                        "root n{} named={:?} wmap={:?}",
                        n.id,
                        n.named.keys().collect::<Vec<_>>(),
                        n.wmap.keys().collect::<Vec<_>>()
                    ));
                    node(n, &mut st);
                }
                st.c
            }
            fn mleaves(n: &MNode, out: &mut Vec<usize>) {
                for a in [&n.slots.fa, &n.slots.fb].into_iter().flatten() {
                    mleaves(a, out);
                }
                for a in &n.kids {
                    mleaves(a, out);
                }
                for a in n.named.values() {
                    mleaves(a, out);
                }
                if let Some(l) = &n.leaf {
                    out.push($P::as_ptr(&l.0) as usize);
                }
                for w in n.weak.iter().flatten() {
                    mleaves(w, out);
                }
                for w in n.wmap.values().flatten() {
                    mleaves(w, out);
                }
            }

            pub fn run(c: &Case, m: &Model) -> Result<(), String> {
                let (root, wrapped) = build(c, m);
                let before = canon(&root, &wrapped);
                check_model(&before, m)?;
                let ser = |r: &Option<Node>, w: &Option<$A<Node>>| match (r, w) {
                    (_, Some(a)) => to_text(a, &c.opts),
                    (Some(n), _) => to_text(n, &c.opts),
                    _ => unreachable!(),
                };
                let text = ser(&root, &wrapped).map_err(|e| format!("serialization failed: {e}"))?;
                check_text(&text, m)?;
                let original = text;
                let text = if c.strip { strip_unreferenced(&original, m) } else { original.clone() };
                let rej = |e: serde_saphyr::Error| {
                    format!("emitted text is rejected: {} (emitted {:?})", e.without_snippet(), text)
                };
                let (root2, wrapped2) = if c.root_wrapped {
                    (None, Some(serde_saphyr::from_str::<$A<Node>>(&text).map_err(rej)?))
                } else {
                    (Some(serde_saphyr::from_str::<Node>(&text).map_err(rej)?), None)
                };
                let after = canon(&root2, &wrapped2);
                compare(&before, &after, &text)?;
                // second generation: the restored graph serialises to the same text
                let text2 = ser(&root2, &wrapped2).map_err(|e| format!("serialization of the restored graph failed: {e}"))?;
                if text2 != original {
                    return Err(format!("restored graph serialises differently: {:?} vs {:?}", text2, original));
                }
                // plain mirror: "Aliases read into plain (non-wrapper) fields still give equal,
                // independent copies" (property text)
                if expansion_size(c) <= 1500 {
                    let plain = serde_saphyr::from_str::<PNode>(&text).map_err(|e| {
                        format!("plain mirror: emitted text is rejected: {} (emitted {:?})", e.without_snippet(), text)
                    })?;
                    let want = expand(c, 0);
                    if plain != want {
                        return Err(format!(
                            "plain mirror differs from the tree expansion: got {:?}, expected {:?} (emitted {:?})",
                            plain, want, text
                        ));
                    }
                    // mixed mirror: plain nodes, wrapper leaves.  README: "A field or structure
                    // that is defined once and subsequently referenced will exist as a single
                    // instance in memory, with all anchor fields pointing to it."
                    if !c.leaves.is_empty() && !c.strip {
                        let mixed = serde_saphyr::from_str::<MNode>(&text).map_err(|e| {
                            format!("mixed mirror: emitted text is rejected: {} (emitted {:?})", e.without_snippet(), text)
                        })?;
                        let mut got = vec![];
                        mleaves(&mixed, &mut got);
                        let mut want = vec![];
                        expand_leaves(c, 0, &mut want);
                        let (g, w) = (first_sight_numbering(&got), first_sight_numbering(&want));
                        if g != w {
                            return Err(format!(
                                "mixed mirror: leaf wrappers inside plain copies are partitioned {:?}, expected {:?} (emitted {:?})",
                                g, w, text
                            ));
                        }
                    }
                }
                Ok(())
            }
        }
    };
}
dag_family!(rc_dag, Rc, RcAnchor, RcWeakAnchor);
dag_family!(arc_dag, Arc, ArcAnchor, ArcWeakAnchor);

// ------------------------------------------------------------------------------------------
// recursive families

trait Slot<T>: Sized {
    fn empty() -> Self;
    fn put(&self, t: T);
    fn read<R>(&self, f: impl FnOnce(Option<&T>) -> R) -> R;
}
impl<T> Slot<T> for RefCell<Option<T>> {
    fn empty() -> Self {
        RefCell::new(None)
    }
    fn put(&self, t: T) {
        *self.borrow_mut() = Some(t);
    }
    fn read<R>(&self, f: impl FnOnce(Option<&T>) -> R) -> R {
        f(self.borrow().as_ref())
    }
}
impl<T> Slot<T> for Mutex<Option<T>> {
    fn empty() -> Self {
        Mutex::new(None)
    }
    fn put(&self, t: T) {
        *self.lock().unwrap_or_else(|e| e.into_inner()) = Some(t);
    }
    fn read<R>(&self, f: impl FnOnce(Option<&T>) -> R) -> R {
        f(self.lock().unwrap_or_else(|e| e.into_inner()).as_ref())
    }
}

static STUCK: std::sync::atomic::AtomicUsize = std::sync::atomic::AtomicUsize::new(0);

/// serialise in place
macro_rules! ser_direct {
    ($f:ident, $root:ident, $wrapped:ident, $opts:expr) => {
        $f(&$root, &$wrapped, &$opts)
    };
}
/// serialise on a helper thread with a time limit: `ArcRecursive` holds a mutex while its value is
/// written, so a serializer that writes a node again instead of an alias would lock it twice and
/// never return; that must become a verdict, not a hung worker
macro_rules! ser_guarded {
    ($f:ident, $root:ident, $wrapped:ident, $opts:expr) => {{
        // once a few serialisations have hung in this process, do not wait for more of them
        if STUCK.load(std::sync::atomic::Ordering::Relaxed) >= 4 {
            return Err("serialisation of an ArcRecursive graph does not return (earlier cases of this run hung, not waiting again)".into());
        }
        let (r, w, o) = ($root.clone(), $wrapped.clone(), $opts.clone());
        let (tx, rx) = std::sync::mpsc::channel();
        let spawned = std::thread::Builder::new().stack_size(64 << 20).spawn(move || {
            let _ = tx.send($f(&r, &w, &o));
        });
        if spawned.is_err() {
            return Err("cannot spawn the serialisation thread".into());
        }
        match rx.recv_timeout(std::time::Duration::from_secs(20)) {
            Ok(x) => x,
            Err(_) => {
                STUCK.fetch_add(1, std::sync::atomic::Ordering::Relaxed);
                return Err("serialisation of an ArcRecursive graph does not return within 20 s (a mutex locked twice?)".into());
            }
        }
    }};
}

macro_rules! rec_family {
    ($m:ident, $P:ident, $S:ident, $K:ident, $Cell:ident, $ser:ident) => {
        mod $m {
            use super::*;
            #[derive(Serialize, Deserialize, Clone)]
            pub struct Slots {
                pub fa: Option<$S<Node>>,
                pub fb: Option<$S<Node>>,
            }
            // (Clone only because the wrappers' derived Clone asks for T: Clone; never used on nodes)
            #[derive(Serialize, Deserialize, Clone)]
            pub struct Node {
                pub id: u32,
                pub pre: Vec<$K<Node>>,
                pub up: Option<$K<Node>>,
                pub slots: Slots,
                pub kids: Vec<$S<Node>>,
                pub named: BTreeMap<String, $S<Node>>,
                pub links: Vec<$K<Node>>,
            }
            fn make(c: &Case, i: usize, cells: &[Option<$S<Node>>]) -> Node {
                let d = &c.nodes[i];
                let mut n = Node {
                    id: d.id,
                    pre: vec![],
                    up: None,
                    slots: Slots { fa: None, fb: None },
                    kids: vec![],
                    named: BTreeMap::new(),
                    links: vec![],
                };
                for (k, e) in d.strong.iter().enumerate() {
                    let a = cells[e.to].clone().expect("harness: cell allocated");
                    match e.pos {
                        Pos::Field => {
                            if n.slots.fa.is_none() {
                                n.slots.fa = Some(a);
                            } else {
                                n.slots.fb = Some(a);
                            }
                        }
                        Pos::Seq => n.kids.push(a),
                        Pos::Map => {
                            n.named.insert(skey(k), a);
                        }
                    }
                }
                for w in &d.weak {
                    let wk = match w.to {
                        Some(t) => $K::from(cells[t].as_ref().expect("harness: cell allocated")),
                        // a dangling link: its target has been dropped
                        None => $K::from(&$S($P::new(<$Cell<Option<Node>> as Slot<Node>>::empty()))),
                    };
                    match w.pos {
                        WPos::Up => n.up = Some(wk),
                        WPos::Map => n.pre.push(wk),
                        WPos::Seq => n.links.push(wk),
                    }
                }
                n
            }
            fn build(c: &Case) -> (Option<Node>, Option<$S<Node>>) {
                let mut cells: Vec<Option<$S<Node>>> = vec![None; c.nodes.len()];
                for i in 0..c.nodes.len() {
                    if i > 0 || c.root_wrapped {
                        cells[i] = Some($S($P::new(<$Cell<Option<Node>> as Slot<Node>>::empty())));
                    }
                }
                for i in (1..c.nodes.len()).rev() {
                    let n = make(c, i, &cells);
                    cells[i].as_ref().unwrap().0.put(n);
                }
                let root = make(c, 0, &cells);
                if c.root_wrapped {
                    let r = cells[0].clone().unwrap();
                    r.0.put(root);
                    (None, Some(r))
                } else {
                    (Some(root), None)
                }
            }
            struct Snap {
                payload: String,
                pre: Vec<Option<usize>>,
                up: Option<Option<usize>>,
                strong: Vec<$S<Node>>,
                links: Vec<Option<usize>>,
            }
            fn wptr(w: &$K<Node>) -> Option<usize> {
                w.0.upgrade().map(|a| $P::as_ptr(&a) as usize)
            }
            fn snap_node(n: &Node, tag: &str) -> Snap {
                let mut strong = vec![];
                for a in [&n.slots.fa, &n.slots.fb].into_iter().flatten() {
                    strong.push(a.clone());
                }
                strong.extend(n.kids.iter().cloned());
                strong.extend(n.named.values().cloned());
                Snap {
                    payload: format!(
                        "{tag}n{} pre={} up={} fa={} fb={} kids={} named={:?} links={}",
                        n.id,
                        n.pre.len(),
                        n.up.is_some(),
                        n.slots.fa.is_some(),
                        n.slots.fb.is_some(),
                        n.kids.len(),
                        n.named.keys().collect::<Vec<_>>(),
                        n.links.len()
                    ),
                    pre: n.pre.iter().map(wptr).collect(),
                    up: n.up.as_ref().map(wptr),
                    strong,
                    links: n.links.iter().map(wptr).collect(),
                }
            }
            fn weak(p: Option<usize>, st: &mut CanonSt) {
                match p {
                    None => st.c.occ.push(('W', -1)),
                    Some(p) => match st.map.get(&p) {
                        Some(&k) => st.c.occ.push(('W', k as i32)),
                        None => {
                            let k = st.c.payload.len();
                            st.map.insert(p, k);
                            st.c.payload.push("weak-only".into());
                            st.c.counts.push(0);
                            st.c.occ.push(('W', k as i32));
                        }
                    },
                }
            }
            fn walk_snap(s: Snap, st: &mut CanonSt) {
                for l in s.pre {
                    weak(l, st);
                }
                if let Some(u) = s.up {
                    weak(u, st);
                }
                for a in s.strong {
                    strong(a, st);
                }
                for l in s.links {
                    weak(l, st);
                }
            }
            fn strong(a: $S<Node>, st: &mut CanonSt) {
                let p = $P::as_ptr(&a.0) as usize;
                match st.map.get(&p) {
                    Some(&k) => st.c.occ.push(('S', k as i32)),
                    None => {
                        let k = st.c.payload.len();
                        st.map.insert(p, k);
                        let snap = a.0.read(|n| n.map(|n| snap_node(n, "")));
                        st.c.payload.push(snap.as_ref().map(|s| s.payload.clone()).unwrap_or("UNINITIALISED".into()));
                        st.c.counts.push(0);
                        st.c.occ.push(('S', k as i32));
                        // the walk: follow the first weak link again and again
                        st.c.walks.push(walk(&a));
                        drop(a);
                        if let Some(s) = snap {
                            walk_snap(s, st);
                        }
                    }
                }
            }
            fn step(a: &$S<Node>) -> (Option<u32>, Option<$S<Node>>) {
                a.0.read(|n| match n {
                    None => (None, None),
                    Some(n) => {
                        let next = n.pre.first().or(n.up.as_ref()).or(n.links.first()).and_then(|w| w.0.upgrade()).map($S);
                        (Some(n.id), next)
                    }
                })
            }
            fn walk(a: &$S<Node>) -> Vec<u32> {
                let mut out = vec![];
                let mut cur = a.clone();
                for _ in 0..12 {
                    let (id, next) = step(&cur);
                    out.push(id.unwrap_or(u32::MAX));
                    match next {
                        Some(n) => cur = n,
                        None => break,
                    }
                }
                out
            }
            /// strong counts per class, taken in a separate pass while nothing is cloned
            fn counts(root: &Option<Node>, wrapped: &Option<$S<Node>>, st: &mut CanonSt) {
                fn go(n: &Node, seen: &mut HashMap<usize, ()>, st: &mut CanonSt) {
                    let each = |a: &$S<Node>, seen: &mut HashMap<usize, ()>, st: &mut CanonSt| {
                        let p = $P::as_ptr(&a.0) as usize;
                        if seen.insert(p, ()).is_none() {
                            if let Some(&k) = st.map.get(&p) {
                                st.c.counts[k] = $P::strong_count(&a.0);
                            }
                            // ArcRecursive: a lock is held while descending; strong edges form a DAG
                            // and weak targets are not locked here, so no lock is taken twice
                            a.0.read(|n| {
                                if let Some(n) = n {
                                    go(n, seen, st)
                                }
                            });
                        }
                    };
                    for a in [&n.slots.fa, &n.slots.fb].into_iter().flatten() {
                        each(a, seen, st);
                    }
                    for a in &n.kids {
                        each(a, seen, st);
                    }
                    for a in n.named.values() {
                        each(a, seen, st);
                    }
                }
                let mut seen = HashMap::new();
                if let Some(a) = wrapped {
                    let p = $P::as_ptr(&a.0) as usize;
                    seen.insert(p, ());
                    if let Some(&k) = st.map.get(&p) {
                        st.c.counts[k] = $P::strong_count(&a.0);
                    }
                    a.0.read(|n| {
                        if let Some(n) = n {
                            go(n, &mut seen, st)
                        }
                    });
                } else if let Some(n) = root {
                    go(n, &mut seen, st);
                }
            }
            fn canon(root: &Option<Node>, wrapped: &Option<$S<Node>>) -> Canon {
                let mut st = CanonSt::default();
                if let Some(a) = wrapped {
                    strong(a.clone(), &mut st);
                } else if let Some(n) = root {
                    let s = snap_node(n, "root ");
                    st.c.root = s.payload.clone();
                    walk_snap(s, &mut st);
                }
                counts(root, wrapped, &mut st);
                st.c
            }

            fn ser_fn(r: &Option<Node>, w: &Option<$S<Node>>, o: &Option<SerOpts>) -> Result<String, String> {
                match (r, w) {
                    (_, Some(a)) => to_text(a, o).map_err(|e| e.to_string()),
                    (Some(n), _) => to_text(n, o).map_err(|e| e.to_string()),
                    _ => unreachable!(),
                }
            }
            pub fn run(c: &Case, m: &Model) -> Result<(), String> {
                let (root, wrapped) = build(c);
                let before = canon(&root, &wrapped);
                check_model(&before, m)?;
                let text = $ser!(ser_fn, root, wrapped, c.opts).map_err(|e| format!("serialization failed: {e}"))?;
                check_text(&text, m)?;
                let original = text;
                let text = if c.strip { strip_unreferenced(&original, m) } else { original.clone() };
                let rej = |e: serde_saphyr::Error| {
                    format!("emitted text is rejected: {} (emitted {:?})", e.without_snippet(), text)
                };
                let (root2, wrapped2) = if c.root_wrapped {
                    (None, Some(serde_saphyr::from_str::<$S<Node>>(&text).map_err(rej)?))
                } else {
                    (Some(serde_saphyr::from_str::<Node>(&text).map_err(rej)?), None)
                };
                let after = canon(&root2, &wrapped2);
                compare(&before, &after, &text)?;
                let text2 = $ser!(ser_fn, root2, wrapped2, c.opts).map_err(|e| format!("serialization of the restored graph failed: {e}"))?;
                if text2 != original {
                    return Err(format!("restored graph serialises differently: {:?} vs {:?}", text2, original));
                }
                Ok(())
            }
        }
    };
}
rec_family!(rc_rec, Rc, RcRecursive, RcRecursion, RefCell, ser_direct);
rec_family!(arc_rec, Arc, ArcRecursive, ArcRecursion, Mutex, ser_guarded);

// ------------------------------------------------------------------------------------------
// generators

/// make a raw description valid: surplus Field / Up positions become Seq, kind-specific
/// positions are mapped, weak edges that violate the documented order are dropped
fn normalise(mut c: Case) -> Case {
    let rec = c.kind.is_rec();
    if rec {
        c.leaves.clear();
    }
    for d in c.nodes.iter_mut() {
        let mut fields = 0;
        for e in d.strong.iter_mut() {
            if e.pos == Pos::Field {
                fields += 1;
                if fields > 2 {
                    e.pos = Pos::Seq;
                }
            }
        }
        let mut ups = 0;
        for w in d.weak.iter_mut() {
            match w.pos {
                WPos::Up if !rec => w.pos = WPos::Seq,
                WPos::Up => {
                    ups += 1;
                    if ups > 1 {
                        w.pos = WPos::Seq;
                    }
                }
                _ => {}
            }
        }
        if rec {
            d.leaf = None;
            // (a dangling link in the Option field would read back as None: not generated)
            d.weak.retain(|w| w.to.is_some() || w.pos != WPos::Up);
        } else if let Some(l) = d.leaf {
            if l >= c.leaves.len() {
                d.leaf = None;
            }
        }
    }
    // weak edges define nothing, so each one is valid or not independently of the others: keep
    // those the model accepts when they are the only weak edge of the graph
    let mut bare = c.clone();
    for d in bare.nodes.iter_mut() {
        d.weak.clear();
    }
    if simulate(&bare).is_err() {
        return c; // invalid for another reason: check() will discard it
    }
    for i in 0..c.nodes.len() {
        let ws = std::mem::take(&mut c.nodes[i].weak);
        for w in ws {
            bare.nodes[i].weak.push(w.clone());
            if simulate(&bare).is_ok() {
                c.nodes[i].weak.push(w);
            }
            bare.nodes[i].weak.clear();
        }
    }
    c
}

const POS3: [Pos; 3] = [Pos::Seq, Pos::Map, Pos::Field];
const LEAF_PAYLOADS: [&str; 8] = ["leaf", "leaf", "other", "two words", "x: y", "42", "two\nlines", ""];

/// strong shape number `code` over `n` allocations: multiplicity (0,1,2) of every edge i -> j, i < j
fn shape(n: usize, mut code: u64) -> Option<Vec<NodeD>> {
    let mut nodes: Vec<NodeD> =
        (0..=n).map(|i| NodeD { id: i as u32, strong: vec![], leaf: None, weak: vec![] }).collect();
    let mut incoming = vec![0usize; n + 1];
    for j in 1..=n {
        for i in 0..j {
            let mult = code % 3;
            code /= 3;
            for _ in 0..mult {
                nodes[i].strong.push(Edge { to: j, pos: Pos::Seq });
                incoming[j] += 1;
            }
        }
    }
    if incoming[1..].iter().any(|&x| x == 0) {
        return None;
    }
    Some(nodes)
}
fn shape_count(n: usize) -> u64 {
    3u64.pow((n * (n + 1) / 2) as u32)
}

fn rotate_positions(nodes: &mut [NodeD], salt: u64) {
    let mut k = salt;
    for d in nodes.iter_mut() {
        let mut fields = 0;
        for e in d.strong.iter_mut() {
            e.pos = POS3[(k % 3) as usize];
            if e.pos == Pos::Field {
                fields += 1;
                if fields > 2 {
                    e.pos = if k % 2 == 0 { Pos::Seq } else { Pos::Map };
                }
            }
            k = k / 3 + 7 * (k % 3) + 1;
        }
    }
}

fn features(c: &Case, m: &Model) -> Vec<String> {
    let mut f = vec![format!("kind {:?}", c.kind)];
    let allocs = c.nodes.len() - 1 + c.root_wrapped as usize;
    f.push(format!("allocations {}", match allocs { 0..=2 => "0-2", 3..=4 => "3-4", 5..=7 => "5-7", _ => "8+" }));
    let maxc = m.class_sizes.iter().copied().max().unwrap_or(0);
    f.push(format!("largest class {}", match maxc { 0..=1 => "1 (nothing shared)", 2 => "2", 3..=4 => "3-4", _ => "5+" }));
    if m.class_sizes.iter().any(|&s| s == 1) && maxc >= 2 {
        f.push("shared mixed with unshared wrappers".into());
    }
    if m.live_weak > 0 {
        f.push("weak edge to a live target".into());
    }
    if m.dangling > 0 {
        f.push("dangling weak".into());
    }
    if m.cycle {
        f.push(format!("cycle, longest ring {}", match m.max_ring { 1 => "1 (self loop)", 2 => "2 (parent pointer)", 3 => "3", 4 => "4", _ => "5+" }));
    }
    if c.root_wrapped {
        f.push("root is a wrapper".into());
    }
    if c.opts.is_some() {
        f.push("non-default serializer options".into());
    }
    if c.strip {
        f.push("unreferenced anchors removed from the text".into());
    }
    if c.kind.is_rec() {
        for d in &c.nodes {
            for w in &d.weak {
                let l = format!("link position {}", match w.pos { WPos::Seq => "after the strong fields", WPos::Map => "before the strong fields", WPos::Up => "Option field" });
                if !f.contains(&l) {
                    f.push(l);
                }
            }
        }
    }
    // where do the later occurrences of shared strong nodes sit?
    let mut seen = vec![false; c.nodes.len()];
    fn go(c: &Case, i: usize, seen: &mut Vec<bool>, f: &mut Vec<String>) {
        for p in [Pos::Field, Pos::Seq, Pos::Map] {
            for e in c.nodes[i].strong.iter().filter(|e| e.pos == p) {
                if seen[e.to] {
                    let l = format!("alias position {:?}", p);
                    if !f.contains(&l) {
                        f.push(l);
                    }
                } else {
                    seen[e.to] = true;
                    go(c, e.to, seen, f);
                }
            }
        }
    }
    go(c, 0, &mut seen, &mut f);
    let shared_leaf = {
        let mut cnt = vec![0; c.leaves.len()];
        for d in &c.nodes {
            if let Some(l) = d.leaf {
                if l < cnt.len() {
                    cnt[l] += 1;
                }
            }
        }
        cnt.iter().any(|&x| x >= 2)
    };
    if shared_leaf {
        f.push("shared string leaf".into());
    }
    f.push(format!("occurrences {}", match m.occ.len() { 0..=3 => "0-3", 4..=8 => "4-8", 9..=16 => "9-16", _ => "17+" }));
    f
}

fn nontrivial_m(m: &Model) -> bool {
    m.class_sizes.iter().any(|&s| s >= 2) || m.live_weak + m.dangling > 0 || m.cycle
}

/// serializer options inside this property's domain: indentation 2/3/4/8, quote_all, yaml_12,
/// prefer_block_scalars, tagged_enums, compact_list_indent and custom anchor names vary;
/// empty_as_braces = false and indent_step = 1 are left to C13 (they break documents without any
/// anchors), and the folding thresholds stay at their defaults
fn c14_opts(bits: u32) -> SerOpts {
    let mut o = SerOpts::from_bits(bits);
    if o.indent == 1 {
        o.indent = 3;
    }
    o.braces = true;
    o.wrap = 80;
    o.min_fold = 32;
    o
}

#[derive(Clone, Debug)]
struct RawGraph {
    strong: Vec<(u16, u16, bool, u8, u32)>,
    weak: Vec<(u16, u16, bool, bool, u8)>, // (source, target, dangling, prefer an ancestor, position 0..20)
    leaves: Vec<u8>,
    leaf_of: Vec<(u16, u16)>,
    root_wrapped: bool,
    opts: Option<SerOpts>,
    strip: bool,
}

fn assemble(kind: Kind, max_alloc: usize, r: RawGraph) -> Case {
    let mut nodes = vec![NodeD { id: 0, strong: vec![], leaf: None, weak: vec![] }];
    // parent[i] = the first parent of node i (for "ancestor" targets of links)
    let mut parent = vec![0usize];
    for (praw, traw, share, pos, id) in r.strong {
        let p = pick_idx(praw, nodes.len());
        let later = nodes.len() - p - 1;
        let pos = POS3[(pos % 3) as usize];
        if (share || nodes.len() > max_alloc) && later > 0 {
            let t = p + 1 + pick_idx(traw, later);
            nodes[p].strong.push(Edge { to: t, pos });
        } else if nodes.len() <= max_alloc {
            nodes.push(NodeD { id, strong: vec![], leaf: None, weak: vec![] });
            parent.push(p);
            let t = nodes.len() - 1;
            nodes[p].strong.push(Edge { to: t, pos });
        }
    }
    let n = nodes.len();
    let leaves: Vec<String> = r.leaves.iter().map(|&k| LEAF_PAYLOADS[k as usize % LEAF_PAYLOADS.len()].to_string()).collect();
    if !leaves.is_empty() {
        for (nraw, lraw) in r.leaf_of {
            let i = pick_idx(nraw, n);
            nodes[i].leaf = Some(pick_idx(lraw, leaves.len()));
        }
    }
    for (sraw, traw, dangling, ancestor, pos) in r.weak {
        let s = pick_idx(sraw, n);
        let pos = if kind.is_rec() {
            // the Option field is rarer: a link from there to an open node is a known finding
            match pos {
                0..=8 => WPos::Seq,
                9..=17 => WPos::Map,
                _ => WPos::Up,
            }
        } else if pos % 2 == 0 {
            WPos::Seq
        } else {
            WPos::Map
        };
        let to = if dangling && (!kind.is_rec() || pos != WPos::Up) {
            None
        } else if ancestor && kind.is_rec() {
            // self or an ancestor along first parents
            let mut chain = vec![s];
            let mut x = s;
            while x != 0 {
                x = parent[x];
                chain.push(x);
            }
            Some(chain[pick_idx(traw, chain.len())])
        } else if n > 1 {
            Some(1 + pick_idx(traw, n - 1))
        } else {
            continue;
        };
        nodes[s].weak.push(WeakE { to, pos });
    }
    normalise(Case { kind, nodes, leaves, root_wrapped: r.root_wrapped, opts: r.opts, strip: r.strip })
}

fn random_graph(kind: Kind, p_share: f64, max_alloc: usize, max_strong: usize, max_weak: usize, strip: bool) -> impl Strategy<Value = Case> + Clone + use<> {
    (
        prop::collection::vec(
            (any::<u16>(), any::<u16>(), prop::bool::weighted(p_share.clamp(0.001, 0.999)), 0u8..3, 0u32..4),
            1..=max_strong,
        ),
        prop::collection::vec(
            (any::<u16>(), any::<u16>(), prop::bool::weighted(0.03), prop::bool::weighted(0.6), 0u8..20),
            0..=max_weak,
        ),
        prop::collection::vec(0u8..8, 0..3),
        prop::collection::vec((any::<u16>(), any::<u16>()), 0..6),
        prop::bool::weighted(0.15),
        prop_oneof![
            3 => Just(None),
            2 => (0u32..(1 << 14)).prop_map(|b| Some(c14_opts(b))),
        ],
    )
        .prop_map(move |(strong, weak, leaves, leaf_of, root_wrapped, opts)| {
            assemble(kind, max_alloc, RawGraph { strong, weak, leaves, leaf_of, root_wrapped, opts, strip })
        })
}

// ------------------------------------------------------------------------------------------

/// Shared payloads other than structs. Every shape shares one allocation between the fields
/// `a` and `c` (or two sequence items) with an unshared sibling in between; after the round trip
/// the values are equal and `a` / `c` are one allocation again, distinct from the sibling.
mod payload {
    use super::*;
    use serde_saphyr::FlowSeq;

    #[derive(Serialize, Deserialize, Debug, PartialEq, Clone)]
    pub enum En {
        U,
        N(i32),
        T(i32, i32),
        S { v: i32 },
    }
    #[derive(Serialize, Deserialize, Debug)]
    struct Three<T: 'static> {
        a: RcAnchor<T>,
        b: RcAnchor<T>,
        c: RcAnchor<T>,
    }
    #[derive(Serialize, Deserialize, Debug, PartialEq)]
    struct Leaf {
        v: i32,
    }
    #[derive(Serialize, Deserialize, Debug)]
    struct Nested {
        a: RcAnchor<ArcAnchor<Leaf>>,
        b: i32,
        c: RcAnchor<ArcAnchor<Leaf>>,
    }
    pub const SHAPES: u32 = 14;

    fn three<T: Serialize + serde::de::DeserializeOwned + PartialEq + std::fmt::Debug + 'static>(shared: T, other: T, o: Option<&SerOpts>) -> Result<(), String> {
        let x = Rc::new(shared);
        let doc = Three { a: RcAnchor(x.clone()), b: RcAnchor(Rc::new(other)), c: RcAnchor(x) };
        let text = emit(&doc, o)?;
        let back: Three<T> = serde_saphyr::from_str(&text).map_err(|e| format!("emitted text is rejected: {} (emitted {text:?})", e.without_snippet()))?;
        if *back.a.0 != *doc.a.0 || *back.b.0 != *doc.b.0 || *back.c.0 != *doc.c.0 {
            return Err(format!("values differ after the round trip: {back:?} (emitted {text:?})"));
        }
        if !Rc::ptr_eq(&back.a.0, &back.c.0) {
            return Err(format!("`a` and `c` were one allocation, they are two after the round trip (emitted {text:?})"));
        }
        if Rc::ptr_eq(&back.a.0, &back.b.0) {
            return Err(format!("`b` was its own allocation, it is shared with `a` after the round trip (emitted {text:?})"));
        }
        Ok(())
    }
    fn emit<T: Serialize>(v: &T, o: Option<&SerOpts>) -> Result<String, String> {
        match o {
            None => serde_saphyr::to_string(v),
            Some(o) => serde_saphyr::to_string_with_options(v, o.build()),
        }
        .map_err(|e| format!("serialization failed: {e}"))
    }

    pub fn run(shape: u32, o: Option<&SerOpts>) -> Result<(), String> {
        match shape {
            0 => three::<Option<i32>>(None, Some(5), o),
            1 => three::<Option<i32>>(Some(5), None, o),
            2 => three::<()>((), (), o),
            3 => three::<En>(En::U, En::N(2), o),
            4 => three::<En>(En::N(1), En::U, o),
            5 => three::<En>(En::T(1, 2), En::N(3), o),
            6 => three::<En>(En::S { v: 1 }, En::U, o),
            7 => three::<Vec<i32>>(vec![1, 2], vec![3], o),
            8 => three::<BTreeMap<String, i32>>(BTreeMap::from([("k".to_string(), 1)]), BTreeMap::new(), o),
            9 => three::<i32>(7, 7, o),
            10 => three::<String>("text".into(), "text".into(), o),
            11 => {
                // shared sequences as items of a block sequence
                let x = Rc::new(vec![1, 2]);
                let doc: Vec<RcAnchor<Vec<i32>>> = vec![RcAnchor(x.clone()), RcAnchor(Rc::new(vec![3])), RcAnchor(x)];
                let text = emit(&doc, o)?;
                let back: Vec<RcAnchor<Vec<i32>>> = serde_saphyr::from_str(&text).map_err(|e| format!("emitted text is rejected: {} (emitted {text:?})", e.without_snippet()))?;
                if back.len() != 3 || *back[0].0 != vec![1, 2] || *back[1].0 != vec![3] || *back[2].0 != vec![1, 2] {
                    return Err(format!("values differ after the round trip: {back:?} (emitted {text:?})"));
                }
                if !Rc::ptr_eq(&back[0].0, &back[2].0) || Rc::ptr_eq(&back[0].0, &back[1].0) {
                    return Err(format!("sharing differs after the round trip (emitted {text:?})"));
                }
                Ok(())
            }
            12 => {
                // shared flow sequence as a mapping value
                #[derive(Serialize, Deserialize, Debug)]
                struct G {
                    a: RcAnchor<FlowSeq<Vec<i32>>>,
                    b: i32,
                    c: RcAnchor<FlowSeq<Vec<i32>>>,
                }
                let x = Rc::new(FlowSeq(vec![1, 2]));
                let doc = G { a: RcAnchor(x.clone()), b: 3, c: RcAnchor(x) };
                let text = emit(&doc, o)?;
                let back: G = serde_saphyr::from_str(&text).map_err(|e| format!("emitted text is rejected: {} (emitted {text:?})", e.without_snippet()))?;
                if back.a.0 .0 != vec![1, 2] || back.c.0 .0 != vec![1, 2] || back.b != 3 {
                    return Err(format!("values differ after the round trip (emitted {text:?})"));
                }
                if !Rc::ptr_eq(&back.a.0, &back.c.0) {
                    return Err(format!("sharing differs after the round trip (emitted {text:?})"));
                }
                Ok(())
            }
            _ => {
                // a wrapper directly inside a wrapper
                let n = Rc::new(ArcAnchor(Arc::new(Leaf { v: 1 })));
                let doc = Nested { a: RcAnchor(n.clone()), b: 2, c: RcAnchor(n) };
                let text = emit(&doc, o)?;
                let back: Nested = serde_saphyr::from_str(&text).map_err(|e| format!("emitted text is rejected: {} (emitted {text:?})", e.without_snippet()))?;
                if back.a.0 .0.v != 1 || back.c.0 .0.v != 1 || back.b != 2 {
                    return Err(format!("values differ after the round trip (emitted {text:?})"));
                }
                if !Rc::ptr_eq(&back.a.0, &back.c.0) {
                    return Err(format!("sharing differs after the round trip (emitted {text:?})"));
                }
                Ok(())
            }
        }
    }

    /// open findings by shape
    pub fn signature(shape: u32) -> Option<&'static str> {
        match shape {
            4..=6 => Some("shared_data_carrying_variant"),
            11 | 12 => Some("shared_collection_layout"),
            13 => Some("wrapper_directly_inside_wrapper"),
            _ => None,
        }
    }
}

struct C14;

fn has_dangling(c: &Case) -> (bool, bool) {
    let mut any = false;
    let mut map = false;
    for d in &c.nodes {
        for w in &d.weak {
            if w.to.is_none() {
                any = true;
                if w.pos == WPos::Map {
                    map = true;
                }
            }
        }
    }
    (any, map)
}

fn remove_node(c: &Case, k: usize) -> Case {
    let mut t = c.clone();
    t.nodes.remove(k);
    for d in t.nodes.iter_mut() {
        d.strong.retain(|e| e.to != k);
        d.weak.retain(|w| w.to != Some(k));
        for e in d.strong.iter_mut() {
            if e.to > k {
                e.to -= 1;
            }
        }
        for w in d.weak.iter_mut() {
            if let Some(x) = w.to {
                if x > k {
                    w.to = Some(x - 1);
                }
            }
        }
    }
    t
}

impl Property for C14 {
    const ID: &'static str = "C14";
    type Case = Case;
    fn rule() -> String {
        "cases = descriptions of object graphs: allocations with payload ids (deliberately repeated across distinct allocations), strong child edges forming a DAG, shared String leaves, weak edges to live and to dropped targets, every occurrence placed as sequence item / map value / field of a nested struct, Rc or Arc family, DAG wrappers (RcAnchor/RcWeakAnchor, ArcAnchor/ArcWeakAnchor) or recursive wrappers (RcRecursive/RcRecursion, ArcRecursive/ArcRecursion) with links to open nodes (self loop, parent pointer, longer rings) and dangling links, optionally a wrapper as document root. Exhaustive: every strong DAG shape with <= 4 allocations (edge multiplicity 0/1/2 for every ordered pair incl. the root), each in 4 variants (Rc, Arc, with weak edges + shared leaves, recursive with links) with rotating positions; for <= 2 allocations additionally every subset of weak edges, for 3 allocations every single weak edge. Random: graphs with <= 10 allocations and <= 25 strong occurrences, sharing probability swept over 0 .. 1, 40% of them under non-default serializer options (indentation 3/4/8, compact_list_indent, quote_all, yaml_12, prefer_block_scalars off, tagged_enums, custom anchor names); a further family is read back from the text a person would write, i.e. after the definitions of never-referenced anchors have been removed from the emitted text. Oracle: partition of all wrapper occurrences in traversal order by pointer equality, payloads, weak upgrade classes / dangling, strong counts and (recursive kinds) the id sequence met by following the first weak link are equal before and after from_str(to_string(g)); the emitted text carries exactly the predicted &aN / *aN tokens (each class defined once, every other occurrence an alias); the restored graph serialises to the same text; the text read into plain mirror types equals the tree expansion computed from the description, and read into plain nodes with wrapper leaves the leaves are shared exactly as the leaf allocations are. Non-trivial: a pointer class with >= 2 occurrences, a weak edge, or a cycle. distinct = distinct descriptions.".into()
    }
    fn assumptions() -> Vec<String> {
        vec![
            "the strong occurrence of a node is serialised (completely) before its RcWeakAnchor/ArcWeakAnchor occurrences (anchors.rs module doc); RcRecursion/ArcRecursion links point to nodes whose strong occurrence has at least started".into(),
            "weak references to targets that are alive but not part of the serialised graph, Option<weak wrapper> fields holding a dangling link are not generated (`null` reads back as None)".into(),
            "anchor names a1, a2, ... as documented in ser.rs (or those of the custom generator); compact_list_indent, empty_as_braces = false, indent_step = 1 and non-default folding thresholds are not generated (they break documents that contain no anchors at all: C13's domain); default deserializer Options".into(),
            "removing the definition of an anchor that no alias refers to does not change the meaning of a YAML text; the mixed mirror (plain nodes, wrapper leaves) is not checked on such texts".into(),
            "the plain mirror is only checked for DAG kinds (a cyclic graph has no finite tree expansion) and expansions of <= 1500 nodes".into(),
        ]
    }
    fn check(c: &Case) -> Outcome {
        if c.kind == Kind::Payload {
            let shape = c.nodes.first().map(|n| n.id).unwrap_or(0);
            return match payload::run(shape, c.opts.as_ref()) {
                Ok(()) => Outcome::Pass,
                Err(e) => Outcome::Fail(e),
            };
        }
        let m = match simulate(c) {
            Ok(m) => m,
            Err(why) => return Outcome::Discard(why),
        };
        // every alias is replayed (and budgeted) by the reader even when the target shares the
        // allocation: a heavily shared DAG whose tree expansion runs into the default node
        // budget (250 000 YAML nodes, ~10 per allocation) is not a document the default options
        // accept - found by the thorough tier's `random-large` family
        if !c.kind.is_rec() && expansion_size(c) > 10_000 {
            return Outcome::Discard("expansion beyond the default budget");
        }
        // (recursive kinds: every strong occurrence after the first and every link to a node
        // that is already complete is an alias that is replayed; links may form cycles, so the
        // estimate takes the strong edges - acyclic - and adds a link's target once)
        if c.kind.is_rec() && expansion_size_rec(c) > 10_000 {
            return Outcome::Discard("expansion beyond the default budget");
        }
        let r = match c.kind {
            Kind::RcDag => rc_dag::run(c, &m),
            Kind::ArcDag => arc_dag::run(c, &m),
            Kind::RcRec => rc_rec::run(c, &m),
            Kind::ArcRec => arc_rec::run(c, &m),
            Kind::Payload => unreachable!(),
        };
        match r {
            Ok(()) => Outcome::Pass,
            Err(e) => Outcome::Fail(e),
        }
    }
    fn signatures(c: &Case) -> Vec<&'static str> {
        if c.kind == Kind::Payload {
            return payload::signature(c.nodes.first().map(|n| n.id).unwrap_or(0)).into_iter().collect();
        }
        let (any, map) = has_dangling(c);
        let mut v = vec![];
        if map {
            v.push("dangling_weak_map_value");
        }
        if any {
            v.push("dangling_weak_null");
        }
        let (block, quote_all, wrap) = match &c.opts {
            None => (true, false, 80),
            Some(o) => (o.block, o.quote_all, o.wrap),
        };
        if block
            && !quote_all
            && c.nodes.iter().filter_map(|d| d.leaf).any(|l| {
                c.leaves.get(l).map(|s| s.contains('\n') || s.chars().count() > wrap).unwrap_or(false)
            })
        {
            v.push("anchored_block_scalar");
        }
        if c.strip && simulate(c).map(|m| m.unshared_inside_shared()).unwrap_or(false) {
            v.push("unanchored_wrapper_inside_anchored_wrapper");
        }
        if c.kind.is_rec() && simulate(c).map(|m| m.open_up > 0).unwrap_or(false) {
            v.push("option_link_to_open_node");
        }
        v
    }
    fn shrink(c: &Case) -> Vec<Case> {
        if c.kind == Kind::Payload {
            return if c.opts.is_some() { vec![Case { opts: None, ..c.clone() }] } else { vec![] };
        }
        let mut out = vec![];
        // remove a node (largest index first)
        for k in (1..c.nodes.len()).rev() {
            out.push(remove_node(c, k));
        }
        for i in 0..c.nodes.len() {
            for k in 0..c.nodes[i].weak.len() {
                let mut t = c.clone();
                t.nodes[i].weak.remove(k);
                out.push(t);
            }
            for k in 0..c.nodes[i].strong.len() {
                let mut t = c.clone();
                t.nodes[i].strong.remove(k);
                out.push(t);
            }
            if c.nodes[i].leaf.is_some() {
                let mut t = c.clone();
                t.nodes[i].leaf = None;
                out.push(t);
            }
        }
        if c.opts.is_some() {
            out.insert(0, Case { opts: None, ..c.clone() });
        }
        if c.strip {
            out.push(Case { strip: false, ..c.clone() });
        }
        if c.root_wrapped {
            out.push(Case { root_wrapped: false, ..c.clone() });
        }
        if !c.leaves.is_empty() && c.nodes.iter().all(|d| d.leaf.is_none()) {
            out.push(Case { leaves: vec![], ..c.clone() });
        }
        for i in 0..c.nodes.len() {
            for k in 0..c.nodes[i].strong.len() {
                if c.nodes[i].strong[k].pos != Pos::Seq {
                    let mut t = c.clone();
                    t.nodes[i].strong[k].pos = Pos::Seq;
                    out.push(t);
                }
            }
            for k in 0..c.nodes[i].weak.len() {
                if c.nodes[i].weak[k].pos != WPos::Seq {
                    let mut t = c.clone();
                    t.nodes[i].weak[k].pos = WPos::Seq;
                    out.push(t);
                }
            }
            if c.nodes[i].id != 0 {
                let mut t = c.clone();
                t.nodes[i].id = 0;
                out.push(t);
            }
        }
        for k in 0..c.leaves.len() {
            if c.leaves[k] != "leaf" {
                let mut t = c.clone();
                t.leaves[k] = "leaf".into();
                out.push(t);
            }
        }
        out
    }
    fn selfcheck() -> Result<(), String> {
        // number of strong shapes in which every allocation is reachable: prod_j (3^j - 1)
        for (n, want) in [(1usize, 2u64), (2, 16), (3, 416), (4, 33280)] {
            let got = (0..shape_count(n)).filter(|&code| shape(n, code).is_some()).count() as u64;
            if got != want {
                return Err(format!("shape enumeration for n={n}: {got} shapes, expected {want}"));
            }
        }
        // the model accepts the documented example graphs and rejects a weak-before-strong one
        let ok = Case {
            kind: Kind::RcDag,
            nodes: vec![
                NodeD { id: 0, strong: vec![Edge { to: 1, pos: Pos::Seq }, Edge { to: 1, pos: Pos::Map }], leaf: None, weak: vec![WeakE { to: Some(1), pos: WPos::Seq }] },
                NodeD { id: 1, strong: vec![], leaf: None, weak: vec![] },
            ],
            leaves: vec![],
            root_wrapped: false,
            opts: None,
            strip: false,
        };
        let m = simulate(&ok).map_err(|e| format!("model rejects a valid graph: {e}"))?;
        if m.tokens != ["&a1", "*a1", "*a1"] {
            return Err(format!("model tokens {:?}", m.tokens));
        }
        let mut bad = ok.clone();
        bad.nodes[1].weak.push(WeakE { to: Some(1), pos: WPos::Seq });
        if simulate(&bad).is_ok() {
            return Err("model accepts a weak edge to an open node in a DAG graph".into());
        }
        bad.kind = Kind::RcRec;
        let m = simulate(&bad).map_err(|e| format!("model rejects a self loop: {e}"))?;
        if !m.cycle || m.max_ring != 1 {
            return Err("model does not see the self loop".into());
        }
        Ok(())
    }
    /// libFuzzer input: pointer kind, flags (strip / root wrapper / options), then the raw graph
    /// description that `assemble` turns into a case: strong edges (5 bytes each), weak edges,
    /// shared leaves
    fn fuzz_decode(data: &[u8]) -> Option<(&'static str, Case, bool)> {
        let mut b = engine::Bytes::new(data);
        let kind = b.pick(&[Kind::RcDag, Kind::ArcDag, Kind::RcRec, Kind::ArcRec]);
        let flags = b.u8();
        let strip = flags & 3 == 0;
        let root_wrapped = flags & 0x1c == 0;
        let opts = if flags & 0x60 == 0 { Some(c14_opts(b.u16() as u32)) } else { None };
        let nw = b.below(9);
        let weak = (0..nw).map(|_| (b.u16(), b.u16(), b.below(32) == 0, b.below(5) < 3, b.below(20) as u8)).collect();
        let nl = b.below(3);
        let leaves = (0..nl).map(|_| b.below(8) as u8).collect();
        let nlo = b.below(6);
        let leaf_of = (0..nlo).map(|_| (b.u16(), b.u16())).collect();
        let ns = 1 + b.below(25);
        let strong = (0..ns).map(|_| (b.u16(), b.u16(), b.below(5) < 2, b.below(3) as u8, b.below(4) as u32)).collect();
        let c = assemble(kind, 10, RawGraph { strong, weak, leaves, leaf_of, root_wrapped, opts, strip });
        let nt = match simulate(&c) {
            Ok(m) => nontrivial_m(&m),
            Err(_) => false,
        };
        Some(("fuzz-graphs", c, nt))
    }
    fn generate(ctx: &mut Ctx<Self>) {
        let thorough = ctx.tier == Tier::Thorough;
        // --- shared payloads that are not structs, under every option vector of the family --------
        {
            let mut i = 0u64;
            for shape in 0..payload::SHAPES {
                for ob in [None, Some(0u32), Some(2), Some(3), Some(32), Some(64), Some(128), Some(256), Some(2 | 32 | 256)] {
                    i += 1;
                    if !ctx.mine(i) {
                        continue;
                    }
                    let c = Case { kind: Kind::Payload, nodes: vec![NodeD { id: shape, strong: vec![], leaf: None, weak: vec![] }], leaves: vec![], root_wrapped: false, opts: ob.map(c14_opts), strip: false };
                    ctx.case("shared-payload-kinds", &c, true);
                }
            }
            ctx.subspace("14 payload shapes (null, unit, 4 enum variants, sequence, map, scalars, sequence items, flow sequence, nested wrappers) x 9 option vectors", i, true);
        }
        let stats: std::rc::Rc<RefCell<BTreeMap<String, u64>>> = std::rc::Rc::new(RefCell::new(BTreeMap::new()));
        let stats2 = stats.clone();
        let note = move |c: &Case| -> bool {
            match simulate(c) {
                Ok(m) => {
                    let mut s = stats2.borrow_mut();
                    for f in features(c, &m) {
                        *s.entry(f).or_insert(0) += 1;
                    }
                    nontrivial_m(&m)
                }
                Err(_) => false,
            }
        };
        // --- exhaustive strong shapes --------------------------------------------------------
        let mut idx = 0u64;
        for n in 1..=4usize {
            let mut valid = 0u64;
            for code in 0..shape_count(n) {
                let Some(nodes) = shape(n, code) else { continue };
                valid += 1;
                idx += 1;
                if !ctx.mine(idx) {
                    continue;
                }
                // variant a/b: plain DAG, Rc and Arc, positions rotating
                for (v, kind) in [(0u64, Kind::RcDag), (1, Kind::ArcDag)] {
                    let mut ns = nodes.clone();
                    rotate_positions(&mut ns, code * 2 + v);
                    // payload ids: repeat ids across distinct allocations
                    for (i, d) in ns.iter_mut().enumerate() {
                        d.id = ((i as u64 + code) % 2) as u32;
                    }
                    let c = Case { kind, nodes: ns, leaves: vec![], root_wrapped: false, opts: None, strip: false };
                    let nt = note(&c);
                    ctx.case("shapes-dag", &c, nt);
                }
                // variant a': the same graphs read back from the text with minimal anchors
                if n <= 3 {
                    for (v, kind) in [(0u64, Kind::RcDag), (1, Kind::ArcDag), (2, Kind::RcRec), (3, Kind::ArcRec)] {
                        let mut ns = nodes.clone();
                        rotate_positions(&mut ns, code * 3 + v);
                        let c = Case { kind, nodes: ns, leaves: vec![], root_wrapped: false, opts: None, strip: true };
                        let nt = note(&c);
                        ctx.case("shapes-minimal-anchors", &c, nt);
                    }
                }
                // variant c: weak edges and shared leaves
                {
                    let kind = if code % 2 == 0 { Kind::RcDag } else { Kind::ArcDag };
                    let mut ns = nodes.clone();
                    rotate_positions(&mut ns, code + 5);
                    for (i, d) in ns.iter_mut().enumerate() {
                        let t = ((code as usize / 3 + i) % n) + 1;
                        d.weak.push(WeakE { to: Some(t), pos: if (code as usize + i) % 2 == 0 { WPos::Seq } else { WPos::Map } });
                        let t2 = ((code as usize / 7 + 2 * i) % n) + 1;
                        if t2 != t {
                            d.weak.push(WeakE { to: Some(t2), pos: WPos::Seq });
                        }
                        d.leaf = match (code as usize + i) % 3 {
                            0 => None,
                            k => Some(k - 1),
                        };
                    }
                    let c = normalise(Case {
                        kind,
                        nodes: ns,
                        leaves: vec!["leaf".into(), if code % 5 == 0 { "leaf".into() } else { "other".into() }],
                        root_wrapped: code % 11 == 3,
                        opts: None,
                        strip: false,
                    });
                    let nt = note(&c);
                    ctx.case("shapes-dag-weak-leaves", &c, nt);
                }
                // variant d: recursive wrappers with links
                {
                    let kind = if code % 2 == 0 { Kind::ArcRec } else { Kind::RcRec };
                    let root_wrapped = code % 4 == 1;
                    let mut ns = nodes.clone();
                    rotate_positions(&mut ns, code + 11);
                    let lo = if root_wrapped { 0 } else { 1 };
                    let span = n + 1 - lo;
                    for (i, d) in ns.iter_mut().enumerate() {
                        let t = lo + (code as usize / 3 + i) % span;
                        d.weak.push(WeakE { to: Some(t), pos: [WPos::Map, WPos::Seq, WPos::Map, WPos::Seq, WPos::Map, WPos::Seq, WPos::Up][(code as usize / 2 + i) % 7] });
                        let t2 = lo + (code as usize / 5 + 3 * i + 1) % span;
                        d.weak.push(WeakE { to: Some(t2), pos: WPos::Seq });
                        if i > 0 && (code as usize + i) % 3 == 0 {
                            d.weak.push(WeakE { to: Some(i), pos: WPos::Seq });
                        }
                    }
                    let c = normalise(Case { kind, nodes: ns, leaves: vec![], root_wrapped, opts: None, strip: false });
                    let nt = note(&c);
                    ctx.case("shapes-rec-links", &c, nt);
                }
            }
            ctx.subspace(&format!("strong DAG shapes with {n} allocations (edge multiplicity 0/1/2), 4 variants each"), valid, true);
        }
        // --- exhaustive weak-edge subsets on the smallest shapes ---------------------------------
        let mut idx = 0u64;
        let mut total = 0u64;
        for n in 1..=2usize {
            for code in 0..shape_count(n) {
                let Some(nodes) = shape(n, code) else { continue };
                // all subsets of weak edges (source i in 0..=n incl. root, target t in 1..=n), both positions rotate
                let pairs: Vec<(usize, usize)> = (0..=n).flat_map(|i| (1..=n).map(move |t| (i, t))).collect();
                for mask in 0u64..(1 << pairs.len()) {
                    for kind in [Kind::RcDag, Kind::ArcDag, Kind::RcRec, Kind::ArcRec] {
                        idx += 1;
                        total += 1;
                        if !ctx.mine(idx) {
                            continue;
                        }
                        let mut ns = nodes.clone();
                        rotate_positions(&mut ns, code + mask);
                        for (b, (i, t)) in pairs.iter().enumerate() {
                            if mask >> b & 1 == 1 {
                                let pos = match (kind.is_rec(), (b as u64 + mask) % 3) {
                                    (false, 0) => WPos::Seq,
                                    (false, _) => WPos::Map,
                                    (true, 0) => WPos::Up,
                                    (true, 1) => WPos::Map,
                                    (true, _) => WPos::Seq,
                                };
                                ns[*i].weak.push(WeakE { to: Some(*t), pos });
                            }
                        }
                        let before: usize = ns.iter().map(|d| d.weak.len()).sum();
                        let c = normalise(Case { kind, nodes: ns, leaves: vec![], root_wrapped: false, opts: None, strip: false });
                        let after: usize = c.nodes.iter().map(|d| d.weak.len()).sum();
                        if after != before {
                            // subsets containing an edge outside the documented domain collapse onto a smaller subset
                            ctx.class("weak subsets outside the domain (skipped)");
                            continue;
                        }
                        let nt = note(&c);
                        ctx.case("small-weak-subsets", &c, nt);
                    }
                }
            }
        }
        ctx.subspace("shapes with <= 2 allocations x every subset of weak edges x 4 kinds (subsets outside the documented order skipped)", total, true);
        // 3 allocations: every single weak edge, plus one dangling weak at every source
        let mut total = 0u64;
        for code in 0..shape_count(3) {
            let Some(nodes) = shape(3, code) else { continue };
            for i in 0..=3usize {
                for t in 0..=3usize {
                    for kind in [Kind::RcDag, Kind::ArcDag, Kind::RcRec, Kind::ArcRec] {
                        for pos in [WPos::Seq, WPos::Map, WPos::Up] {
                            if pos == WPos::Up && !kind.is_rec() {
                                continue;
                            }
                            idx += 1;
                            total += 1;
                            if !ctx.mine(idx) {
                                continue;
                            }
                            let mut ns = nodes.clone();
                            rotate_positions(&mut ns, code + idx);
                            // t == 0 stands for "dangling" in DAG kinds and for "the wrapped root" in recursive kinds
                            let (to, root_wrapped) = match (t, kind.is_rec()) {
                                (0, false) => (None, false),
                                (0, true) => (Some(0), true),
                                (t, _) => (Some(t), false),
                            };
                            ns[i].weak.push(WeakE { to, pos });
                            let c = Case { kind, nodes: ns, leaves: vec![], root_wrapped, opts: None, strip: false };
                            if simulate(&c).is_err() {
                                ctx.class("single weak edge outside the domain (skipped)");
                                continue;
                            }
                            let nt = note(&c);
                            ctx.case("single-weak-edge", &c, nt);
                        }
                    }
                }
            }
        }
        ctx.subspace("shapes with 3 allocations x every single weak edge (incl. dangling / wrapped root) x 4 kinds x all positions", total, true);

        // --- random graphs, sharing probability swept ---------------------------------------------
        let n = ctx.tier.pick(800, 20_000);
        let mut stream = 1;
        for &p in &[0.0, 0.1, 0.25, 0.5, 0.75, 1.0] {
            for kind in [Kind::RcDag, Kind::ArcDag] {
                let s = random_graph(kind, p, 10, 25, 8, false);
                ctx.run_strategy(&format!("random-dag-share-{p}"), stream, n, &s, note.clone());
                stream += 1;
            }
            for kind in [Kind::RcRec, Kind::ArcRec] {
                let s = random_graph(kind, p, 10, 25, 10, false);
                ctx.run_strategy(&format!("random-rec-share-{p}"), stream, n, &s, note.clone());
                stream += 1;
            }
        }
        // deep chains / wide fans: small allocation count, many occurrences
        for kind in [Kind::RcDag, Kind::ArcDag, Kind::RcRec, Kind::ArcRec] {
            let s = random_graph(kind, 0.9, 4, 25, 6, false);
            ctx.run_strategy("random-dense-few-allocations", stream, n, &s, note.clone());
            stream += 1;
        }
        // the text as a person would write it: anchors only where an alias refers to them
        for kind in [Kind::RcDag, Kind::ArcDag, Kind::RcRec, Kind::ArcRec] {
            for &p in &[0.1, 0.6] {
                let s = random_graph(kind, p, 8, 16, 6, true);
                ctx.run_strategy("random-minimal-anchors", stream, n, &s, note.clone());
                stream += 1;
            }
        }
        if thorough {
            for kind in [Kind::RcDag, Kind::ArcDag, Kind::RcRec, Kind::ArcRec] {
                let s = random_graph(kind, 0.5, 24, 60, 20, false);
                ctx.run_strategy("random-large", stream, 8_000, &s, note.clone());
                stream += 1;
            }
        }
        for (k, v) in stats.take() {
            ctx.class_n(&k, v);
        }
    }
}

fn main() {
    engine::main::<C14>()
}

/// entry point of the libFuzzer target `fuzz/fuzz_targets/c14.rs`
#[allow(dead_code)]
pub fn fuzz(data: &[u8]) {
    engine::fuzz_one::<C14>(data)
}
