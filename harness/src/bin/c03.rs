//! C03 – merge keys (<<) equal the explicitly merged mapping with fixed precedence.
use proptest::prelude::*;
use serde::de::DeserializeSeed;
use serde::{Deserialize, Serialize};
use vcheck::engine::{self, Ctx, Outcome, Property};
use vcheck::gdoc::{self, Kind, Layout, Node, Style};
use vcheck::opts::{DeOpts, Dup};
use vcheck::shape::{ScalarMode, ShapeSeed};
use vcheck::untyped::U;

#[derive(Clone, Copy, Debug, Serialize, Deserialize, PartialEq, Eq)]
enum Target {
    /// untyped, delivery order preserved
    Untyped,
    /// every scalar through deserialize_string; compared with the harness' own expected value
    ShapeStr,
    /// struct with optional fields a, b, c, k, x, y (root must be a mapping)
    Struct,
    /// struct with fixed-arity fields a: (i64, i64), b: (i64,), c: Vec<i64>: a merged value must
    /// be consumed by its field exactly like a value written in place (no surplus element dropped)
    Arity,
}

#[derive(Clone, Debug, Serialize, Deserialize)]
struct Case {
    doc: Node,
    layout: Layout,
    dup: Dup,
    target: Target,
    /// expected verdict class fixed by the generator: "ok", "bad-merge-value"
    expect: String,
}

#[derive(Debug, Deserialize, PartialEq)]
struct St {
    a: Option<U>,
    b: Option<U>,
    c: Option<U>,
    k: Option<U>,
    x: Option<U>,
    y: Option<U>,
}

#[derive(Debug, Deserialize, PartialEq)]
struct Ar {
    a: Option<(i64, i64)>,
    b: Option<(i64,)>,
    c: Option<Vec<i64>>,
}

fn run(text: &str, shape: Option<&Node>, dup: Dup, target: Target) -> Result<String, String> {
    let o = DeOpts::with_dup(dup).build();
    let e = |e: serde_saphyr::Error| e.without_snippet().to_string();
    match target {
        Target::Untyped => serde_saphyr::from_str_with_options::<U>(text, o).map(|v| format!("{v:?}")).map_err(e),
        Target::Struct => serde_saphyr::from_str_with_options::<St>(text, o).map(|v| format!("{v:?}")).map_err(e),
        Target::Arity => serde_saphyr::from_str_with_options::<Ar>(text, o).map(|v| format!("{v:?}")).map_err(e),
        Target::ShapeStr => serde_saphyr::with_deserializer_from_str_with_options(text, o, |d| ShapeSeed { shape, mode: ScalarMode::Str }.deserialize(d))
            .map(|v| format!("{v:?}"))
            .map_err(e),
    }
}

fn check_case(c: &Case) -> Outcome {
    let r = gdoc::render(&c.doc, &c.layout);
    if gdoc::selfcheck_render(&c.doc, &c.layout, &r.text).is_err() {
        return Outcome::Discard("selfcheck-render");
    }
    let text = r.text;
    let Ok(expanded) = gdoc::expand_aliases(&c.doc) else {
        return Outcome::Discard("selfcheck-unbound-alias");
    };
    let merged = gdoc::resolve_merges(&expanded);
    match (&merged, c.expect.as_str()) {
        (Err(_), "bad-merge-value") => {
            // a merge value that is not a mapping, a (nested) sequence of mappings or null is rejected
            return match run(&text, None, c.dup, c.target) {
                Err(_) => Outcome::Pass,
                Ok(v) => Outcome::Fail(format!("invalid merge value accepted as {v} (text {text:?})")),
            };
        }
        (Ok(_), "ok") => {}
        _ => return Outcome::Discard("selfcheck-expectation"),
    }
    let merged = merged.unwrap();
    let text2 = gdoc::render(&merged, &c.layout).text;
    let a = run(&text, Some(&merged), c.dup, c.target);
    let b = run(&text2, Some(&merged), c.dup, c.target);
    match (&a, &b) {
        (Ok(x), Ok(y)) if x == y => {}
        (Ok(x), Ok(y)) => return Outcome::Fail(format!("differs from the mapping written out in full: {x} vs {y} (text {text:?} / merged {text2:?})")),
        (Err(e), Ok(y)) => return Outcome::Fail(format!("rejected ({e}) but the mapping written out in full gives {y} (text {text:?} / merged {text2:?})")),
        (Ok(x), Err(e)) => return Outcome::Fail(format!("accepted as {x} but the mapping written out in full is rejected: {e} (text {text:?} / merged {text2:?})")),
        (Err(_), Err(_)) => {}
    }
    // absolute oracle for the all-strings target: exactly the harness' merged value, in order
    if c.target == Target::ShapeStr {
        let want = format!("{:?}", gdoc::to_u_strings(&merged));
        match &a {
            Ok(x) if *x == want => {}
            Ok(x) => return Outcome::Fail(format!("value {x} differs from the reference merge {want} (text {text:?})")),
            Err(e) => return Outcome::Fail(format!("rejected ({e}) but the reference merge is {want} (text {text:?})")),
        }
    } else if c.target == Target::Untyped && a.is_err() {
        return Outcome::Fail(format!("valid merge document rejected: {} (text {text:?})", a.unwrap_err()));
    }
    Outcome::Pass
}

fn s(v: &str) -> Node {
    Node::plain(v)
}
fn mk_source(keys: &[&str], tag: &str) -> Node {
    Node::map(true, keys.iter().enumerate().map(|(j, k)| (s(k), s(&format!("{tag}{j}")))).collect())
}

/// nontrivial: >= 1 merge entry together with a collision, a sequence source or a nested merge
fn nontrivial(c: &Case) -> bool {
    let Ok(exp) = gdoc::expand_aliases(&c.doc) else { return false };
    let mut nt = false;
    exp.visit(&mut |n| {
        if let Kind::Map { entries, .. } = &n.kind {
            let merges: Vec<&Node> = entries.iter().filter(|(k, _)| k.is_merge_key()).map(|(_, v)| v).collect();
            if merges.is_empty() {
                return;
            }
            let mut keys: Vec<&Node> = entries.iter().filter(|(k, _)| !k.is_merge_key()).map(|(k, _)| k).collect();
            for m in &merges {
                if matches!(m.kind, Kind::Seq { .. }) {
                    nt = true;
                }
                m.visit(&mut |x| {
                    if let Kind::Map { entries, .. } = &x.kind {
                        for (k, _) in entries {
                            if k.is_merge_key() {
                                nt = true;
                            } else if keys.iter().any(|k2| gdoc::same_key(k2, k)) {
                                nt = true;
                            } else {
                                keys.push(k);
                            }
                        }
                    }
                });
            }
        }
    });
    nt
}

const KEYSETS: [&[&str]; 6] = [&["a"], &["b"], &["a", "b"], &["b", "a"], &["a", "c"], &["c"]];

/// a merge map source with possibly nested merges (depth-limited), no duplicate keys inside one source
// ---------------- byte-driven construction (libFuzzer target) ----------------------------------
fn source_from_bytes(b: &mut engine::Bytes, depth: u32) -> Node {
    const KEYS: [&str; 6] = ["a", "b", "c", "k", "x", "y"];
    // an ordered selection of up to three distinct keys
    let nk = b.below(4);
    let mut ks: Vec<&str> = vec![];
    for _ in 0..nk {
        let k = b.pick(&KEYS);
        if !ks.contains(&k) {
            ks.push(k);
        }
    }
    let t = b.u8() as u16;
    if depth == 0 {
        return Node::map(t % 2 == 0, ks.iter().enumerate().map(|(j, k)| (s(k), s(&format!("v{}{j}", t % 97)))).collect());
    }
    let mut entries: Vec<(Node, Node)> = ks.iter().enumerate().map(|(j, k)| (s(k), s(&format!("w{}{j}", t % 97)))).collect();
    for _ in 0..b.below(3) {
        let m = merge_value_from_bytes(b, depth - 1);
        let p = b.below(5).min(entries.len());
        entries.insert(p, (s("<<"), m));
    }
    Node::map(false, entries)
}

fn merge_value_from_bytes(b: &mut engine::Bytes, depth: u32) -> Node {
    match b.below(9) {
        0..=3 => source_from_bytes(b, depth),
        4 | 5 => {
            let n = b.below(3);
            Node::seq(true, (0..n).map(|_| source_from_bytes(b, depth)).collect())
        }
        6 => {
            let a = source_from_bytes(b, depth);
            let c = source_from_bytes(b, 0);
            Node::seq(false, vec![a, Node::seq(true, vec![c])])
        }
        _ => {
            let ni = 2 + b.below(2);
            let inner: Vec<Node> = (0..ni).map(|_| source_from_bytes(b, 0)).collect();
            let no = b.below(3);
            let mut items: Vec<Node> = (0..no).map(|_| source_from_bytes(b, 0)).collect();
            let nested = Node::seq(true, inner);
            if b.bool() { items.insert(0, nested) } else { items.push(nested) }
            Node::seq(true, items)
        }
    }
}

fn arb_source(depth: u32) -> BoxedStrategy<Node> {
    let keys = prop::sample::subsequence(vec!["a", "b", "c", "k", "x", "y"], 0..4).prop_shuffle();
    if depth == 0 {
        (keys, any::<u16>())
            .prop_map(|(ks, t)| Node::map(t % 2 == 0, ks.iter().enumerate().map(|(j, k)| (s(k), s(&format!("v{}{j}", t % 97)))).collect()))
            .boxed()
    } else {
        (keys, any::<u16>(), prop::collection::vec((arb_merge_value(depth - 1), 0usize..5), 0..3))
            .prop_map(|(ks, t, merges)| {
                let mut entries: Vec<(Node, Node)> = ks.iter().enumerate().map(|(j, k)| (s(k), s(&format!("w{}{j}", t % 97)))).collect();
                for (m, pos) in merges {
                    let p = pos.min(entries.len());
                    entries.insert(p, (s("<<"), m));
                }
                Node::map(t % 3 == 0, entries)
            })
            .boxed()
    }
}
fn arb_merge_value(depth: u32) -> BoxedStrategy<Node> {
    prop_oneof![
        4 => arb_source(depth),
        2 => prop::collection::vec(arb_source(depth), 0..3).prop_map(|v| Node::seq(true, v)),
        1 => (arb_source(depth), arb_source(0)).prop_map(|(a, b)| Node::seq(false, vec![a, Node::seq(true, vec![b])])),
        // nested sequences whose inner elements collide on keys (the order inside the inner
        // sequence matters: a later element overrides an earlier one, recursively)
        2 => (prop::collection::vec(arb_source(0), 2..4), prop::collection::vec(arb_source(0), 0..3), any::<bool>()).prop_map(|(inner, outer, first)| {
            let nested = Node::seq(true, inner);
            let mut items: Vec<Node> = outer;
            if first { items.insert(0, nested) } else { items.push(nested) }
            Node::seq(true, items)
        }),
        1 => prop::sample::select(vec!["~", "null", "Null", "NULL"]).prop_map(s),
        // (a scalar tagged `!!null` is null whatever its text)
        1 => prop::sample::select(vec!["x", "0", "~"]).prop_map(|t| s(t).tagged("!!null")),
    ]
    .boxed()
}

struct C03;
impl Property for C03 {
    const ID: &'static str = "C03";
    type Case = Case;
    fn rule() -> String {
        "cases = (mapping document with 0..n merge entries, layout, duplicate-key policy, target). Exhaustive: all shapes with <= 2 own keys, <= 2 merge entries (at every interleaving with the own keys), <= 2 sources per entry (inline flow mapping, alias to an earlier anchored mapping, sequence of those), source key sets drawn from 3 names, x 3 policies x targets; random: nested merges to depth 3, null merge values, nested sequences, block/flow layouts, aliases; family composite-key-merges: own and merged keys drawn from sequence / mapping / scalar key nodes, 1-2 merge entries supplied in place, through an alias or inside a merge sequence. Oracle: value(doc) == value(rendering of the harness' own resolve_merges(expand_aliases(ast))) under the same policy and target (delivery order observable through the order-preserving untyped target), plus for the all-strings target equality with the harness' expected value; invalid merge values (non-null scalar, sequence containing a scalar) must be rejected; quoted / tagged `<<` is an ordinary key. Non-trivial: >= 1 merge entry together with a collision, a sequence source or a nested merge; distinct = (doc, layout, policy, target).".into()
    }
    fn assumptions() -> Vec<String> {
        vec![
            "no source mapping contains a duplicate key, and own keys never repeat among themselves (that is C04's domain)".into(),
            "scalars are plain identifiers so that their interpretation (C06) plays no role".into(),
        ]
    }
    fn check(c: &Case) -> Outcome {
        check_case(c)
    }
    fn shrink(c: &Case) -> Vec<Case> {
        let mut out = vec![];
        if c.layout != Layout::default() {
            out.push(Case { layout: Layout::default(), ..c.clone() });
        }
        // drop one entry of the root mapping / of its "t" mapping
        if let Kind::Map { flow, entries } = &c.doc.kind {
            for i in 0..entries.len() {
                let mut e = entries.clone();
                e.remove(i);
                out.push(Case { doc: Node { anchor: c.doc.anchor.clone(), tag: None, kind: Kind::Map { flow: *flow, entries: e } }, ..c.clone() });
            }
        }
        out
    }
    /// libFuzzer input: layout bits, policy, target, own keys, then up to three merge entries
    /// (value, position); mapping sources may go through an alias
    fn fuzz_decode(data: &[u8]) -> Option<(&'static str, Case, bool)> {
        let mut b = engine::Bytes::new(data);
        let lb = b.u16() as u32;
        let dup = b.pick(&Dup::ALL);
        let target = b.pick(&[Target::Untyped, Target::ShapeStr, Target::Struct]);
        let anchor_it = b.bool();
        const KEYS: [&str; 6] = ["a", "b", "c", "k", "x", "y"];
        let mut own: Vec<&str> = vec![];
        for _ in 0..b.below(4) {
            let k = b.pick(&KEYS);
            if !own.contains(&k) {
                own.push(k);
            }
        }
        let mut entries: Vec<(Node, Node)> = own.iter().enumerate().map(|(j, k)| (s(k), s(&format!("o{j}")))).collect();
        let mut defs = vec![];
        for i in 0..b.below(4) {
            let m = merge_value_from_bytes(&mut b, 2);
            let p = b.below(5).min(entries.len());
            if anchor_it && matches!(m.kind, Kind::Map { .. }) && target != Target::Struct {
                let name = format!("r{i}");
                defs.push(m.anchored(&name));
                entries.insert(p, (s("<<"), Node::alias(&name)));
            } else {
                entries.insert(p, (s("<<"), m));
            }
        }
        let t = Node::map(false, entries);
        let doc = if defs.is_empty() { t } else { Node::map(false, vec![(s("defs"), Node::seq(false, defs)), (s("t"), t)]) };
        let c = Case { doc, layout: Layout::from_bits(lb), dup, target, expect: "ok".into() };
        let nt = nontrivial(&c);
        Some(("fuzz-nested", c, nt))
    }
    fn generate(ctx: &mut Ctx<Self>) {
        // ---------------- exhaustive small shapes --------------------------------------
        // merge entry options: (value node, needed definitions)
        let mut entry_opts: Vec<(Node, Vec<Node>)> = vec![];
        for (i, ks) in KEYSETS.iter().enumerate() {
            entry_opts.push((mk_source(ks, &format!("i{i}")), vec![]));
            entry_opts.push((Node::alias(&format!("m{i}")), vec![mk_source(ks, &format!("d{i}")).anchored(&format!("m{i}"))]));
        }
        for (i, k1) in KEYSETS.iter().enumerate() {
            for (j, k2) in KEYSETS.iter().enumerate() {
                let v = if (i + j) % 2 == 0 {
                    Node::seq(true, vec![mk_source(k1, &format!("p{i}")), mk_source(k2, &format!("q{j}"))])
                } else {
                    Node::seq(true, vec![Node::alias(&format!("m{i}")), mk_source(k2, &format!("q{j}"))])
                };
                let defs = if (i + j) % 2 == 0 { vec![] } else { vec![mk_source(k1, &format!("d{i}")).anchored(&format!("m{i}"))] };
                entry_opts.push((v, defs));
            }
        }
        let own_opts: Vec<Vec<&str>> = vec![vec![], vec!["a"], vec!["b"], vec!["c"], vec!["a", "b"], vec!["b", "a"], vec!["a", "c"], vec!["c", "a"], vec!["b", "c"], vec!["c", "b"]];
        let mut idx = 0u64;
        let mut total = 0u64;
        let build = |own: &Vec<&str>, merges: &[&(Node, Vec<Node>)], positions: &[usize]| -> Node {
            let mut entries: Vec<(Node, Node)> = own.iter().enumerate().map(|(j, k)| (s(k), s(&format!("o{j}")))).collect();
            let mut defs: Vec<Node> = vec![];
            // insert merges at the given positions (positions refer to the list as it grows)
            for (m, p) in merges.iter().zip(positions) {
                entries.insert((*p).min(entries.len()), (s("<<"), m.0.clone()));
                for d in &m.1 {
                    if !defs.iter().any(|x| x.anchor == d.anchor) {
                        defs.push(d.clone());
                    }
                }
            }
            let t = Node::map(false, entries);
            if defs.is_empty() {
                t
            } else {
                Node::map(false, vec![(s("defs"), Node::seq(false, defs)), (s("t"), t)])
            }
        };
        let targets = [Target::Untyped, Target::ShapeStr];
        let stride = ctx.tier.pick(7u64, 1u64); // quick: every 7th two-merge shape (all one-merge shapes)
        for own in &own_opts {
            // zero merges
            {
                let d = build(own, &[], &[]);
                for dup in Dup::ALL {
                    for t in targets {
                        idx += 1;
                        total += 1;
                        if ctx.mine(idx) {
                            let c = Case { doc: d.clone(), layout: Layout::default(), dup, target: t, expect: "ok".into() };
                            ctx.case("exhaustive", &c, false);
                        }
                    }
                }
            }
            for (e1i, e1) in entry_opts.iter().enumerate() {
                for p1 in 0..=own.len() {
                    let d = build(own, &[e1], &[p1]);
                    for dup in Dup::ALL {
                        for t in targets {
                            idx += 1;
                            total += 1;
                            if ctx.mine(idx) {
                                let c = Case { doc: d.clone(), layout: Layout::default(), dup, target: t, expect: "ok".into() };
                                let nt = nontrivial(&c);
                                ctx.case("exhaustive", &c, nt);
                            }
                        }
                    }
                    for (e2i, e2) in entry_opts.iter().enumerate() {
                        if (e1i * entry_opts.len() + e2i) as u64 % stride != 0 {
                            continue;
                        }
                        for p2 in 0..=(own.len() + 1) {
                            let d = build(own, &[e1, e2], &[p1, p2]);
                            let dup = Dup::ALL[(idx % 3) as usize];
                            let t = targets[((idx / 3) % 2) as usize];
                            idx += 1;
                            total += 1;
                            if ctx.mine(idx) {
                                let c = Case { doc: d.clone(), layout: Layout::default(), dup, target: t, expect: "ok".into() };
                                let nt = nontrivial(&c);
                                ctx.case("exhaustive", &c, nt);
                            }
                        }
                    }
                }
            }
        }
        ctx.subspace("own key lists (10) x <=2 merge entries from 48 options x interleavings (two-merge shapes: stride 7 in quick, all in thorough; policy/target rotate)", total, stride == 1);

        // ---------------- merged values of fixed-arity fields --------------------------------
        {
            let ints = |n: usize| Node::seq(true, (0..n).map(|i| s(&(i + 1).to_string())).collect());
            let mut idx = 0u64;
            for key in ["a", "b", "c"] {
                for n in 0..=3usize {
                    for supply in 0..6 {
                        for dup in Dup::ALL {
                            idx += 1;
                            if !ctx.mine(idx) {
                                continue;
                            }
                            let src = Node::map(true, vec![(s(key), ints(n))]);
                            let doc = match supply {
                                0 => Node::map(false, vec![(s(key), ints(n))]),
                                1 => Node::map(false, vec![(s("<<"), src)]),
                                2 => Node::map(false, vec![(s("defs"), Node::seq(false, vec![src.anchored("m")])), (s("t"), Node::map(false, vec![(s("<<"), Node::alias("m"))]))]),
                                3 => Node::map(false, vec![(s("<<"), Node::seq(true, vec![Node::map(true, vec![]), src]))]),
                                4 => Node::map(false, vec![(s("<<"), Node::map(true, vec![(s("<<"), src)]))]),
                                _ => Node::map(false, vec![(s("defs"), Node::seq(false, vec![ints(n).anchored("v")])), (s("t"), Node::map(false, vec![(s("<<"), Node::map(true, vec![(s(key), Node::alias("v"))]))]))]),
                            };
                            // the struct is the root, or (with definitions) the value of `t`: only root documents fit `Ar`
                            let doc = match &doc.kind {
                                Kind::Map { entries, .. } if entries.len() == 2 && matches!(&entries[0].0.kind, Kind::Scalar { value, .. } if value == "defs") => {
                                    // move the definitions into an ignored field of the root
                                    let mut root = vec![(s("defs"), entries[0].1.clone())];
                                    if let Kind::Map { entries: te, .. } = &entries[1].1.kind {
                                        root.extend(te.iter().cloned());
                                    }
                                    Node::map(false, root)
                                }
                                _ => doc,
                            };
                            let c = Case { doc, layout: Layout::default(), dup, target: Target::Arity, expect: "ok".into() };
                            ctx.case("merged-arity", &c, supply > 0);
                        }
                    }
                }
            }
            ctx.subspace("3 fixed-arity fields x sequence lengths 0-3 x 6 ways of supplying the value (in place, inline merge, merge through an alias, sequence source, nested merge, merged alias) x 3 policies", idx, true);
        }

        // ---------------- random nested merges ---------------------------------------
        let strat = (
            prop::sample::subsequence(vec!["a", "b", "c", "k", "x", "y"], 0..4).prop_shuffle(),
            prop::collection::vec((arb_merge_value(2), 0usize..5), 0..4),
            0u32..(1 << 12),
            prop::sample::select(Dup::ALL.to_vec()),
            prop::sample::select(vec![Target::Untyped, Target::ShapeStr, Target::Struct]),
            any::<bool>(),
        )
            .prop_map(|(own, merges, lb, dup, target, anchor_it)| {
                let mut entries: Vec<(Node, Node)> = own.iter().enumerate().map(|(j, k)| (s(k), s(&format!("o{j}")))).collect();
                let mut defs = vec![];
                for (i, (m, pos)) in merges.into_iter().enumerate() {
                    let p = pos.min(entries.len());
                    // half of the mapping sources go through an alias
                    if anchor_it && matches!(m.kind, Kind::Map { .. }) && target != Target::Struct {
                        let name = format!("r{i}");
                        defs.push(m.anchored(&name));
                        entries.insert(p, (s("<<"), Node::alias(&name)));
                    } else {
                        entries.insert(p, (s("<<"), m));
                    }
                }
                let t = Node::map(false, entries);
                let doc = if defs.is_empty() { t } else { Node::map(false, vec![(s("defs"), Node::seq(false, defs)), (s("t"), t)]) };
                Case { doc, layout: Layout::from_bits(lb), dup, target, expect: "ok".into() }
            });
        ctx.run_strategy("random-nested", 1, ctx.tier.pick(40_000, 600_000), &strat, nontrivial);

        // ---------------- merged mappings with sequence / mapping keys -------------------
        // the rule is stated over key nodes, not key strings: a source may supply several
        // composite keys, and an own composite key overrides an equal merged one
        let ckey = prop::sample::select(vec![0usize, 1, 2, 3, 4, 5]).prop_map(|i| match i {
            0 => Node::seq(true, vec![s("1"), s("2")]),
            1 => Node::seq(true, vec![s("3"), s("4")]),
            2 => Node::map(true, vec![(s("k"), s("v"))]),
            3 => Node::seq(true, vec![s("1")]),
            4 => s("a"),
            _ => s("b"),
        });
        let csource = prop::collection::vec(ckey.clone(), 1..4);
        let strat = (
            prop::collection::vec(ckey, 0..3),
            prop::collection::vec((csource, 0usize..4, 0usize..3), 1..3),
            0u32..(1 << 12),
            prop::sample::select(Dup::ALL.to_vec()),
        )
            .prop_map(|(own, merges, lb, dup)| {
                let uniq = |ks: Vec<Node>| {
                    let mut out: Vec<Node> = vec![];
                    for k in ks {
                        if !out.iter().any(|k2| gdoc::same_key(k2, &k)) {
                            out.push(k);
                        }
                    }
                    out
                };
                let mut entries: Vec<(Node, Node)> = uniq(own).into_iter().enumerate().map(|(j, k)| (k, s(&format!("o{j}")))).collect();
                let mut defs = vec![];
                for (i, (ks, pos, supply)) in merges.into_iter().enumerate() {
                    let src = Node::map(true, uniq(ks).into_iter().enumerate().map(|(j, k)| (k, s(&format!("m{i}{j}")))).collect());
                    let p = pos.min(entries.len());
                    let v = match supply {
                        0 => src,
                        1 => {
                            let name = format!("r{i}");
                            defs.push(src.anchored(&name));
                            Node::alias(&name)
                        }
                        _ => Node::seq(true, vec![Node::map(true, vec![(s("z"), s("9"))]), src]),
                    };
                    entries.insert(p, (s("<<"), v));
                }
                let t = Node::map(false, entries);
                let doc = if defs.is_empty() { t } else { Node::map(false, vec![(s("defs"), Node::seq(false, defs)), (s("t"), t)]) };
                Case { doc, layout: Layout::from_bits(lb), dup, target: Target::Untyped, expect: "ok".into() }
            });
        ctx.run_strategy("composite-key-merges", 4, ctx.tier.pick(8_000, 100_000), &strat, nontrivial);

        // ---------------- invalid merge values ------------------------------------------
        let bad = prop_oneof![
            prop::sample::select(vec!["x", "1", "true", "zz"]).prop_map(s),
            Just(Node::scalar("", Style::Double)),
            Just(Node::scalar("~", Style::Double)),
            Just(Node::scalar("null", Style::Single)),
            // a null-like text under a tag that makes it a value (a string, a binary payload)
            Just(Node::plain("null").tagged("!!str")),
            Just(Node::plain("~").tagged("!!str")),
            Just(Node::plain("null").tagged("!!binary")),
            (arb_source(0), prop::sample::select(vec!["x", "7"])).prop_map(|(m, x)| Node::seq(true, vec![m, s(x)])),
            prop::sample::select(vec!["x", "7"]).prop_map(|x| Node::seq(true, vec![Node::seq(true, vec![s(x)])])),
        ];
        let strat = (bad, 0u32..(1 << 12), prop::sample::select(Dup::ALL.to_vec()), prop::sample::select(vec![Target::Untyped, Target::ShapeStr, Target::Struct]), any::<bool>())
            .prop_map(|(b, lb, dup, target, first)| {
                let mut entries = vec![(s("a"), s("1"))];
                if first {
                    entries.insert(0, (s("<<"), b));
                } else {
                    entries.push((s("<<"), b));
                }
                Case { doc: Node::map(false, entries), layout: Layout::from_bits(lb), dup, target, expect: "bad-merge-value".into() }
            });
        ctx.run_strategy("invalid-merge-value", 2, ctx.tier.pick(4_000, 40_000), &strat, |_| true);

        // ---------------- quoted / tagged `<<` is an ordinary key ----------------------
        let okey = prop_oneof![
            Just(Node::scalar("<<", Style::Double)),
            Just(Node::scalar("<<", Style::Single)),
            Just(Node::plain("<<").tagged("!!str")),
            Just(Node::plain("<<").tagged("!x")),
        ];
        let strat = (okey, arb_source(0), 0u32..(1 << 12), prop::sample::select(Dup::ALL.to_vec())).prop_map(|(k, m, lb, dup)| Case {
            doc: Node::map(false, vec![(s("b"), s("own")), (k, m), (s("c"), s("z"))]),
            layout: Layout::from_bits(lb),
            dup,
            target: Target::ShapeStr,
            expect: "ok".into(),
        });
        ctx.run_strategy("quoted-or-tagged-merge-key", 3, ctx.tier.pick(3_000, 30_000), &strat, |_| true);
    }
}

fn main() {
    engine::main::<C03>()
}

/// entry point of the libFuzzer target `fuzz/fuzz_targets/c03.rs`
#[allow(dead_code)]
pub fn fuzz(data: &[u8]) {
    engine::fuzz_one::<C03>(data)
}
