//! Reference model for C06 (scalar interpretation), written from the README / rustdoc only.
//! It never calls into serde-saphyr.  Part 1: tiny big integer, base64, token classifiers.
//! Part 2 (`expect`) is further down.
use crate::untyped::U;
use serde::{Deserialize, Serialize};

// ------------------------------------------------------------------------------------------
// tiny arbitrary precision unsigned integer (little endian u32 limbs, no trailing zero limb)

#[derive(Clone, Debug, PartialEq, Eq)]
pub struct Big(pub Vec<u32>);

impl Big {
    pub fn zero() -> Big {
        Big(vec![])
    }
    pub fn from_u128(mut x: u128) -> Big {
        let mut v = vec![];
        while x != 0 {
            v.push((x & 0xffff_ffff) as u32);
            x >>= 32;
        }
        Big(v)
    }
    pub fn pow2(k: usize) -> Big {
        let mut v = vec![0u32; k / 32];
        v.push(1u32 << (k % 32));
        Big(v)
    }
    pub fn is_zero(&self) -> bool {
        self.0.is_empty()
    }
    fn norm(&mut self) {
        while self.0.last() == Some(&0) {
            self.0.pop();
        }
    }
    /// self = self * m + a
    pub fn mul_add_small(&mut self, m: u32, a: u32) {
        let mut carry = a as u64;
        for l in self.0.iter_mut() {
            let t = (*l as u64) * (m as u64) + carry;
            *l = (t & 0xffff_ffff) as u32;
            carry = t >> 32;
        }
        if carry != 0 {
            self.0.push(carry as u32);
        }
    }
    /// self = self / d, returns the remainder
    pub fn divmod_small(&mut self, d: u32) -> u32 {
        let mut rem = 0u64;
        for l in self.0.iter_mut().rev() {
            let cur = (rem << 32) | (*l as u64);
            *l = (cur / d as u64) as u32;
            rem = cur % d as u64;
        }
        self.norm();
        rem as u32
    }
    pub fn add_small(&self, a: u32) -> Big {
        let mut r = self.clone();
        let mut carry = a as u64;
        for l in r.0.iter_mut() {
            let t = *l as u64 + carry;
            *l = (t & 0xffff_ffff) as u32;
            carry = t >> 32;
            if carry == 0 {
                break;
            }
        }
        if carry != 0 {
            r.0.push(carry as u32);
        }
        r
    }
    /// self - a (requires self >= a)
    pub fn sub_small(&self, a: u32) -> Big {
        let mut r = self.clone();
        let mut borrow = a as i64;
        for l in r.0.iter_mut() {
            let t = *l as i64 - borrow;
            if t < 0 {
                *l = (t + (1i64 << 32)) as u32;
                borrow = 1;
            } else {
                *l = t as u32;
                borrow = 0;
                break;
            }
        }
        assert!(borrow == 0, "Big::sub_small underflow");
        r.norm();
        r
    }
    pub fn bits(&self) -> usize {
        match self.0.last() {
            None => 0,
            Some(l) => (self.0.len() - 1) * 32 + (32 - l.leading_zeros() as usize),
        }
    }
    pub fn is_pow2(&self) -> bool {
        let ones: u32 = self.0.iter().map(|l| l.count_ones()).sum();
        ones == 1
    }
    pub fn to_u128(&self) -> Option<u128> {
        if self.bits() > 128 {
            return None;
        }
        let mut x = 0u128;
        for (i, l) in self.0.iter().enumerate() {
            x |= (*l as u128) << (32 * i);
        }
        Some(x)
    }
    pub fn to_radix(&self, radix: u32, upper: bool) -> String {
        if self.is_zero() {
            return "0".into();
        }
        let mut t = self.clone();
        let mut out = vec![];
        while !t.is_zero() {
            let d = t.divmod_small(radix);
            let ch = std::char::from_digit(d, radix).unwrap();
            out.push(if upper { ch.to_ascii_uppercase() } else { ch });
        }
        out.iter().rev().collect()
    }
    /// does (neg, self) fit a signed integer of `w` bits?
    pub fn fits_signed(&self, neg: bool, w: usize) -> bool {
        let b = self.bits();
        b <= w - 1 || (neg && b == w && self.is_pow2())
    }
    pub fn fits_unsigned(&self, neg: bool, w: usize) -> bool {
        (!neg || self.is_zero()) && self.bits() <= w
    }
}

// ------------------------------------------------------------------------------------------
// values

/// A value delivered by the library / demanded by the model (floats by bit pattern, one NaN).
#[derive(Clone, Debug, PartialEq)]
pub enum Val {
    Int(i128),
    /// only for values above i128::MAX
    UInt(u128),
    F32(u32),
    F64(u64),
    Bool(bool),
    Char(char),
    Str(String),
    None,
    Some(Box<Val>),
    Unit,
    Bytes(Vec<u8>),
    U(U),
}
pub fn f32v(f: f32) -> Val {
    Val::F32(if f.is_nan() { f32::NAN.to_bits() } else { f.to_bits() })
}
pub fn f64v(f: f64) -> Val {
    Val::F64(if f.is_nan() { f64::NAN.to_bits() } else { f.to_bits() })
}

/// (neg, magnitude) as an integer value; None when it exceeds 128 bits
pub fn big_to_val(neg: bool, m: &Big) -> Option<Val> {
    let b = m.bits();
    if b <= 127 {
        let x = m.to_u128()? as i128;
        Some(Val::Int(if neg { -x } else { x }))
    } else if b == 128 && !neg {
        Some(Val::UInt(m.to_u128()?))
    } else if b == 128 && neg && m.is_pow2() {
        Some(Val::Int(i128::MIN))
    } else {
        None
    }
}

#[derive(Clone, Debug, PartialEq)]
pub enum Expect {
    /// documented: must be accepted with exactly this value
    Must(Val),
    /// documented: must be rejected
    MustErr,
    /// grey zone: may be rejected; if accepted the value must be one of these
    Free(Vec<Val>),
    /// nothing is fixed
    Any,
}
impl Expect {
    /// Must(v) -> Free([v]); used when style / tag leave the documented combination
    pub fn degrade(self) -> Expect {
        match self {
            Expect::Must(v) => Expect::Free(vec![v]),
            o => o,
        }
    }
    /// additionally MustErr -> Any
    pub fn loosen(self) -> Expect {
        match self {
            Expect::Must(v) => Expect::Free(vec![v]),
            Expect::MustErr => Expect::Any,
            o => o,
        }
    }
    pub fn kind(&self) -> &'static str {
        match self {
            Expect::Must(_) => "Must",
            Expect::MustErr => "MustErr",
            Expect::Free(_) => "Free",
            Expect::Any => "Any",
        }
    }
}

// ------------------------------------------------------------------------------------------
// case vocabulary

#[derive(Clone, Copy, Debug, Serialize, Deserialize, PartialEq, Eq, Hash)]
pub enum Style {
    Plain,
    Single,
    Double,
    Literal,
    Folded,
}
pub const STYLES: [Style; 5] = [Style::Plain, Style::Single, Style::Double, Style::Literal, Style::Folded];

#[derive(Clone, Copy, Debug, Serialize, Deserialize, PartialEq, Eq, Hash)]
pub enum Tag {
    None,
    Str,
    Int,
    Float,
    Bool,
    Null,
    Binary,
    /// `!`
    NonSpecific,
    /// `!x`
    Custom,
}
pub const TAGS: [Tag; 9] =
    [Tag::None, Tag::Str, Tag::Int, Tag::Float, Tag::Bool, Tag::Null, Tag::Binary, Tag::NonSpecific, Tag::Custom];
impl Tag {
    pub fn text(self) -> &'static str {
        match self {
            Tag::None => "",
            Tag::Str => "!!str",
            Tag::Int => "!!int",
            Tag::Float => "!!float",
            Tag::Bool => "!!bool",
            Tag::Null => "!!null",
            Tag::Binary => "!!binary",
            Tag::NonSpecific => "!",
            Tag::Custom => "!x",
        }
    }
}

#[derive(Clone, Copy, Debug, Serialize, Deserialize, PartialEq, Eq, Hash)]
pub enum Target {
    I8,
    I16,
    I32,
    I64,
    I128,
    U8,
    U16,
    U32,
    U64,
    U128,
    F32,
    F64,
    Bool,
    Char,
    Str,
    OptI64,
    OptStr,
    Unit,
    Bytes,
    /// `Vec<u8>` (README: "`!!binary`-tagged YAML values are base64-decoded when deserializing into `Vec<u8>`"): reached through deserialize_seq, not deserialize_bytes
    VecU8,
    OptVecU8,
    Untyped,
}
pub const TARGETS: [Target; 22] = [
    Target::I8,
    Target::I16,
    Target::I32,
    Target::I64,
    Target::I128,
    Target::U8,
    Target::U16,
    Target::U32,
    Target::U64,
    Target::U128,
    Target::F32,
    Target::F64,
    Target::Bool,
    Target::Char,
    Target::Str,
    Target::OptI64,
    Target::OptStr,
    Target::Unit,
    Target::Bytes,
    Target::VecU8,
    Target::OptVecU8,
    Target::Untyped,
];
impl Target {
    /// (signed, width) for integer targets
    pub fn int(self) -> Option<(bool, usize)> {
        Some(match self {
            Target::I8 => (true, 8),
            Target::I16 => (true, 16),
            Target::I32 => (true, 32),
            Target::I64 => (true, 64),
            Target::I128 => (true, 128),
            Target::U8 => (false, 8),
            Target::U16 => (false, 16),
            Target::U32 => (false, 32),
            Target::U64 => (false, 64),
            Target::U128 => (false, 128),
            _ => return None,
        })
    }
}

/// the four options of the property, as a bit set 0..16
#[derive(Clone, Copy, Debug, PartialEq, Eq)]
pub struct Opt {
    pub strict: bool,
    pub no_schema: bool,
    pub legacy: bool,
    pub ignore_bin: bool,
}
pub const BIT_STRICT: u8 = 1;
pub const BIT_NO_SCHEMA: u8 = 2;
pub const BIT_LEGACY: u8 = 4;
pub const BIT_IGNORE_BIN: u8 = 8;
impl Opt {
    pub fn from_bits(b: u8) -> Opt {
        Opt {
            strict: b & BIT_STRICT != 0,
            no_schema: b & BIT_NO_SCHEMA != 0,
            legacy: b & BIT_LEGACY != 0,
            ignore_bin: b & BIT_IGNORE_BIN != 0,
        }
    }
    pub fn name(&self) -> String {
        let mut v = vec![];
        if self.strict {
            v.push("strict_booleans");
        }
        if self.no_schema {
            v.push("no_schema");
        }
        if self.legacy {
            v.push("legacy_octal_numbers");
        }
        if self.ignore_bin {
            v.push("ignore_binary_tag_for_string");
        }
        if v.is_empty() { "default".into() } else { v.join("+") }
    }
}

// ------------------------------------------------------------------------------------------
// independent strict base64 decoder (bit accumulator; RFC 4648 alphabet, canonical padding)

#[derive(Clone, Debug, PartialEq)]
pub enum B64 {
    Valid(Vec<u8>),
    Invalid,
    /// contains ASCII whitespace other than space / line feed: the docs only name spaces and newlines
    Grey,
}
fn sextet(c: char) -> Option<u32> {
    const ALPHA: &str = "ABCDEFGHIJKLMNOPQRSTUVWXYZabcdefghijklmnopqrstuvwxyz0123456789+/";
    ALPHA.find(c).map(|i| i as u32)
}
pub fn b64_decode(text: &str) -> B64 {
    if text.chars().any(|c| matches!(c, '\t' | '\r' | '\x0c' | '\x0b')) {
        return B64::Grey;
    }
    let cleaned: Vec<char> = text.chars().filter(|c| *c != ' ' && *c != '\n').collect();
    if cleaned.len() % 4 != 0 {
        return B64::Invalid;
    }
    let data_len = cleaned.iter().position(|c| *c == '=').unwrap_or(cleaned.len());
    let pads = cleaned.len() - data_len;
    if pads > 2 || cleaned[data_len..].iter().any(|c| *c != '=') {
        return B64::Invalid;
    }
    let mut acc: u32 = 0;
    let mut nbits = 0;
    let mut out = vec![];
    for c in &cleaned[..data_len] {
        let Some(s) = sextet(*c) else { return B64::Invalid };
        acc = (acc << 6) | s;
        nbits += 6;
        if nbits >= 8 {
            nbits -= 8;
            out.push(((acc >> nbits) & 0xff) as u8);
            acc &= (1 << nbits) - 1;
        }
    }
    // canonical: left-over bits are zero and their number matches the padding
    let expected_left = match pads {
        0 => 0,
        1 => 2,
        _ => 4,
    };
    if nbits != expected_left || acc != 0 {
        return B64::Invalid;
    }
    B64::Valid(out)
}
pub fn b64_encode(bytes: &[u8]) -> String {
    const ALPHA: &[u8] = b"ABCDEFGHIJKLMNOPQRSTUVWXYZabcdefghijklmnopqrstuvwxyz0123456789+/";
    let mut out = String::new();
    let mut acc: u32 = 0;
    let mut nbits = 0;
    for b in bytes {
        acc = (acc << 8) | *b as u32;
        nbits += 8;
        while nbits >= 6 {
            nbits -= 6;
            out.push(ALPHA[((acc >> nbits) & 63) as usize] as char);
            acc &= (1 << nbits) - 1;
        }
    }
    if nbits > 0 {
        out.push(ALPHA[((acc << (6 - nbits)) & 63) as usize] as char);
    }
    while out.len() % 4 != 0 {
        out.push('=');
    }
    out
}

// ------------------------------------------------------------------------------------------
// token classifiers

#[derive(Clone, Copy, Debug, PartialEq, Eq)]
pub enum Cls {
    /// not this kind of token under any reading
    No,
    /// readable as this kind only under a lenient, undocumented reading
    Lenient,
    /// inside the documented notation
    Strict,
}

pub struct IntRead {
    pub cls: Cls,
    pub neg: bool,
    pub radix: u32,
    /// candidate magnitudes (first = the main reading)
    pub mags: Vec<Big>,
}

fn accumulate(digits: &str, radix: u32) -> Option<Big> {
    let mut mag = Big::zero();
    let mut n = 0;
    for ch in digits.chars() {
        if ch == '_' {
            continue;
        }
        let d = ch.to_digit(16)?;
        if !ch.is_ascii() || d >= radix {
            return None;
        }
        mag.mul_add_small(radix, d);
        n += 1;
    }
    if n == 0 { None } else { Some(mag) }
}

/// Integer reading of a token.
/// Documented notations (README "Rust types as schema", tests/number_bases.rs quoted in the
/// property, rustdoc of `Options::legacy_octal_numbers`): optional sign, decimal digits,
/// `0x` / `0o` / `0b` prefixes, `_` separators between digits, and - only with
/// `legacy_octal_numbers` - "values starting with `00` are treated as base-8".
pub fn int_read(text: &str, legacy: bool) -> IntRead {
    let no = IntRead { cls: Cls::No, neg: false, radix: 10, mags: vec![] };
    let s = text.trim();
    let ws = s.len() != text.len();
    let (sign, rest) = match s.chars().next() {
        Some('+') => (Some('+'), &s[1..]),
        Some('-') => (Some('-'), &s[1..]),
        _ => (None, s),
    };
    let neg = sign == Some('-');
    if rest.is_empty() || !rest.is_ascii() {
        return no;
    }
    let rb = rest.as_bytes();
    let pfx = if rb.len() >= 2 && rb[0] == b'0' { Some(rb[1]) } else { None };
    let (radix, digits, upper_prefix, is_legacy) = match pfx {
        Some(b'x') | Some(b'X') => (16, &rest[2..], pfx == Some(b'X'), false),
        Some(b'o') | Some(b'O') => (8, &rest[2..], pfx == Some(b'O'), false),
        Some(b'b') | Some(b'B') => (2, &rest[2..], pfx == Some(b'B'), false),
        _ if legacy && rest.starts_with("00") => (8, rest, false, true),
        _ => (10, rest, false, false),
    };
    let Some(mag) = accumulate(digits, radix) else { return no };
    // underscore placement: only single underscores between two digits are documented
    let db = digits.as_bytes();
    let mut us_ok = true;
    for (i, b) in db.iter().enumerate() {
        if *b == b'_' && (i == 0 || i + 1 == db.len() || db[i - 1] == b'_' || db[i + 1] == b'_') {
            us_ok = false;
        }
    }
    let plain_digits: String = digits.chars().filter(|c| *c != '_').collect();
    let mut strict = !ws && us_ok && !upper_prefix;
    let mut mags = vec![mag];
    if radix == 10 {
        if plain_digits.len() > 1 && plain_digits.starts_with('0') {
            // redundant leading zero: grey (YAML 1.1 would read octal, YAML 1.2 decimal)
            strict = false;
            if legacy {
                if let Some(alt) = accumulate(digits, 8) {
                    mags.push(alt);
                }
            }
        }
    } else if is_legacy {
        // `00` alone, `+00..`, or an underscore right behind the `00` marker are not spelled out
        if sign == Some('+') || plain_digits.len() < 3 || db.get(2) == Some(&b'_') {
            strict = false;
        }
    } else if sign == Some('+') {
        strict = false;
    }
    IntRead { cls: if strict { Cls::Strict } else { Cls::Lenient }, neg, radix, mags }
}

/// `[-+]?(\.[0-9]+|[0-9]+(\.[0-9]*)?)([eE][-+]?[0-9]+)?` – the YAML 1.2 core schema float
pub fn core_float(s: &str) -> bool {
    let b = s.as_bytes();
    let mut i = 0;
    if i < b.len() && (b[i] == b'+' || b[i] == b'-') {
        i += 1;
    }
    let d0 = i;
    while i < b.len() && b[i].is_ascii_digit() {
        i += 1;
    }
    let nint = i - d0;
    if i < b.len() && b[i] == b'.' {
        i += 1;
        let f0 = i;
        while i < b.len() && b[i].is_ascii_digit() {
            i += 1;
        }
        if nint == 0 && i == f0 {
            return false;
        }
    } else if nint == 0 {
        return false;
    }
    if i < b.len() && (b[i] == b'e' || b[i] == b'E') {
        i += 1;
        if i < b.len() && (b[i] == b'+' || b[i] == b'-') {
            i += 1;
        }
        let e0 = i;
        while i < b.len() && b[i].is_ascii_digit() {
            i += 1;
        }
        if i == e0 {
            return false;
        }
    }
    i == b.len()
}

pub struct FloatRead {
    pub cls: Cls,
    /// strict only when the result is finite (overflow to infinity is not documented)
    pub strict32: bool,
    pub strict64: bool,
    pub v32: f32,
    pub v64: f64,
}

/// Float reading. Documented: "supports YAML 1.2 `+.inf`, `-.inf`, `.nan`" (rustdoc of
/// deserialize_f32/f64), YAML 1.2 core float grammar; IEEE conversion = Rust's `str::parse`.
pub fn float_read(text: &str) -> FloatRead {
    let no = FloatRead { cls: Cls::No, strict32: false, strict64: false, v32: 0.0, v64: 0.0 };
    let s = text.trim();
    let ws = s.len() != text.len();
    let (sign, body) = match s.chars().next() {
        Some('+') => (Some('+'), &s[1..]),
        Some('-') => (Some('-'), &s[1..]),
        _ => (None, s),
    };
    let special = |cls: Cls, v: f64| FloatRead {
        cls,
        strict32: cls == Cls::Strict,
        strict64: cls == Cls::Strict,
        v32: v as f32,
        v64: v,
    };
    let inf = if sign == Some('-') { f64::NEG_INFINITY } else { f64::INFINITY };
    if matches!(body, ".inf" | ".Inf" | ".INF") {
        return special(if ws { Cls::Lenient } else { Cls::Strict }, inf);
    }
    if matches!(body, ".nan" | ".NaN" | ".NAN") {
        return special(if ws || sign.is_some() { Cls::Lenient } else { Cls::Strict }, f64::NAN);
    }
    if body.eq_ignore_ascii_case(".inf") {
        return special(Cls::Lenient, inf);
    }
    if body.eq_ignore_ascii_case(".nan") {
        return special(Cls::Lenient, f64::NAN);
    }
    let parse = |t: &str| -> Option<(f32, f64)> { Some((t.parse::<f32>().ok()?, t.parse::<f64>().ok()?)) };
    if core_float(s) {
        return match parse(s) {
            Some((a, b)) => FloatRead {
                cls: if ws { Cls::Lenient } else { Cls::Strict },
                strict32: !ws && a.is_finite(),
                strict64: !ws && b.is_finite(),
                v32: a,
                v64: b,
            },
            None => no,
        };
    }
    if let Some((a, b)) = parse(s) {
        // `inf`, `infinity`, `nan` ... accepted by Rust's parser, not named by the docs
        return FloatRead { cls: Cls::Lenient, strict32: false, strict64: false, v32: a, v64: b };
    }
    let cleaned: String = s.chars().filter(|c| *c != '_').collect();
    if cleaned.len() != s.len() && core_float(&cleaned) {
        if let Some((a, b)) = parse(&cleaned) {
            return FloatRead { cls: Cls::Lenient, strict32: false, strict64: false, v32: a, v64: b };
        }
    }
    no
}

/// `[-+]?0[0-9_]+` without fraction / exponent: integer-looking token with a redundant leading zero
pub fn leading_zero_intlike(text: &str) -> bool {
    let s = text.trim();
    let r = s.strip_prefix(['+', '-']).unwrap_or(s);
    r.len() > 1 && r.starts_with('0') && r[1..].chars().all(|c| c.is_ascii_digit() || c == '_')
}

pub struct BoolRead {
    pub cls: Cls,
    pub val: bool,
    /// the word is true/false (any case)
    pub is_tf: bool,
    /// exactly `true` / `false`
    pub exact: bool,
}
/// YAML 1.1 table: y|Y|yes|Yes|YES|n|N|no|No|NO|true|True|TRUE|false|False|FALSE|on|On|ON|off|Off|OFF
/// (README "Booleans" + "Rust types as schema"; rustdoc of `Options::strict_booleans`).
pub fn bool_read(text: &str) -> BoolRead {
    let s = text.trim();
    let ws = s.len() != text.len();
    let lower = s.to_ascii_lowercase();
    let val = match lower.as_str() {
        "y" | "yes" | "true" | "on" => true,
        "n" | "no" | "false" | "off" => false,
        _ => return BoolRead { cls: Cls::No, val: false, is_tf: false, exact: false },
    };
    let mut cap = lower.clone();
    cap[..1].make_ascii_uppercase();
    let canonical = s == lower || s == lower.to_ascii_uppercase() || s == cap;
    BoolRead {
        cls: if canonical && !ws { Cls::Strict } else { Cls::Lenient },
        val,
        is_tf: lower == "true" || lower == "false",
        exact: !ws && (s == "true" || s == "false"),
    }
}

/// null forms: empty, `~`, `null`, `Null`, `NULL` (rustdoc of deserialize_string / deserialize_unit /
/// deserialize_option: "empty, `~`, or case-insensitive `null`"; odd case mixes are kept grey)
pub fn null_class(text: &str) -> Cls {
    if matches!(text, "" | "~" | "null" | "Null" | "NULL") {
        return Cls::Strict;
    }
    let t = text.trim();
    if t.is_empty() || t == "~" || t.eq_ignore_ascii_case("null") {
        return Cls::Lenient;
    }
    Cls::No
}

// ------------------------------------------------------------------------------------------
// Part 2: the expectation for one cell (text, style, tag, target, options)

/// Does a plain scalar "look like something else than a string" (no_schema)?
/// Strict = a documented number / boolean / null notation; Lenient = only under a lenient reading.
/// README: "all *unquoted* values that are parsed into strings, but can be understood as
/// something else, are rejected"; rustdoc `Options::no_schema`: "values that can be parsed as
/// booleans or numbers are rejected as unquoted strings".
pub fn nonstring_class(text: &str, opt: Opt) -> Cls {
    let i0 = int_read(text, false);
    let i1 = int_read(text, true);
    let f = float_read(text);
    let b = bool_read(text);
    let n = null_class(text);
    // `0b` is an extension other parsers do not know: grey; a value no integer type of the
    // library can hold (beyond i128 / u128) "can be parsed as a number" by nothing here: grey
    let int_strict = |r: &IntRead| {
        r.cls == Cls::Strict
            && r.radix != 2
            && (r.mags[0].fits_signed(r.neg, 128) || r.mags[0].fits_unsigned(r.neg, 128))
    };
    // the legacy-octal reading only makes a token "maybe a number": whether the no_schema test
    // follows legacy_octal_numbers is not documented
    let def = int_strict(&i0)
        || (f.cls == Cls::Strict)
        || (b.cls == Cls::Strict && (b.is_tf || !opt.strict))
        || n == Cls::Strict;
    if def {
        return Cls::Strict;
    }
    let maybe = i0.cls != Cls::No || i1.cls != Cls::No || f.cls != Cls::No || b.cls != Cls::No || n != Cls::No;
    if maybe { Cls::Lenient } else { Cls::No }
}

fn is_quoted(s: Style) -> bool {
    matches!(s, Style::Single | Style::Double)
}
fn nullish_lenient(text: &str) -> bool {
    null_class(text) != Cls::No
}

/// Expectation for a string-like target, as text (None = the value is `text` itself).
/// Returns Must/MustErr/Free/Any over Val::Str.
fn str_like(text: &str, style: Style, tag: Tag, opt: Opt) -> Expect {
    let me = || Val::Str(text.to_string());
    match tag {
        // an explicit !!str makes any content a string (YAML spec; tests/no_schema.rs
        // "!!str 123 should be accepted as string when no_schema"); null-looking plain content
        // under !!str is left grey
        Tag::Str => {
            if style == Style::Plain && nullish_lenient(text) {
                Expect::Free(vec![me()])
            } else {
                Expect::Must(me())
            }
        }
        Tag::None | Tag::Custom | Tag::NonSpecific => {
            let base = match style {
                // property text: "Quoted scalars are never taken for null, numbers or booleans
                // by string targets"
                Style::Single | Style::Double => Expect::Must(me()),
                Style::Plain => match null_class(text) {
                    // rustdoc deserialize_string: "plain null-like scalars (empty, `~`, or
                    // case-insensitive `null`) are not valid `String`"
                    Cls::Strict => Expect::MustErr,
                    Cls::Lenient => Expect::Free(vec![me()]),
                    Cls::No => {
                        if opt.no_schema {
                            match nonstring_class(text, opt) {
                                Cls::Strict => Expect::MustErr,
                                Cls::Lenient => Expect::Free(vec![me()]),
                                Cls::No => Expect::Must(me()),
                            }
                        } else {
                            // README: "`0x2A` is parsed ... as a string when the target is `String`"
                            Expect::Must(me())
                        }
                    }
                },
                Style::Literal | Style::Folded => {
                    if nullish_lenient(text) || (opt.no_schema && nonstring_class(text, opt) != Cls::No) {
                        // is a block scalar "unquoted"? not said
                        Expect::Free(vec![me()])
                    } else {
                        Expect::Must(me())
                    }
                }
            };
            if tag == Tag::None {
                base
            } else {
                // `!` "forces string" (comment in tags.rs), `!x` is unknown: if accepted, the text
                match base {
                    Expect::Must(v) => Expect::Free(vec![v]),
                    Expect::MustErr => Expect::Free(vec![me()]),
                    o => o,
                }
            }
        }
        // !!int / !!float / !!bool / !!null on a string target: not documented in README
        Tag::Int | Tag::Float | Tag::Bool | Tag::Null => Expect::Free(vec![me()]),
        Tag::Binary => Expect::Any, // callers handle !!binary
    }
}

fn expect_string(text: &str, style: Style, tag: Tag, opt: Opt) -> Expect {
    if tag != Tag::Binary {
        return str_like(text, style, tag, opt);
    }
    if opt.ignore_bin {
        // README "Binary scalars": with ignore_binary_tag_for_string the value is taken verbatim
        // ("name: !!binary H4sIAA==" -> "H4sIAA=="); null-looking / number-looking plain content: grey
        return match str_like(text, style, Tag::None, opt) {
            Expect::MustErr => Expect::Free(vec![Val::Str(text.to_string())]),
            o => o,
        };
    }
    // README: "`!!binary`-tagged YAML values are base64-decoded when deserializing into
    // `Vec<u8>` or `String` (reporting an error if it is not valid UTF-8)"
    // (a payload whose base64 text spells a null-like token is still a payload: README states no
    // exception, and `null` is the canonical base64 of 9E E9 65)
    let grey_plain = style == Style::Plain && (text.is_empty() || (opt.no_schema && nonstring_class(text, opt) != Cls::No));
    match b64_decode(text) {
        B64::Grey => Expect::Any,
        B64::Invalid => {
            if grey_plain {
                Expect::Any
            } else {
                Expect::MustErr
            }
        }
        B64::Valid(bytes) => match String::from_utf8(bytes) {
            Ok(s) => {
                if grey_plain {
                    Expect::Free(vec![Val::Str(s)])
                } else {
                    Expect::Must(Val::Str(s))
                }
            }
            Err(_) => {
                if grey_plain {
                    Expect::Any
                } else {
                    Expect::MustErr
                }
            }
        },
    }
}

fn expect_int(text: &str, style: Style, tag: Tag, opt: Opt, signed: bool, w: usize) -> Expect {
    let r = int_read(text, opt.legacy);
    if r.cls == Cls::No {
        // property text: "integers accept exactly the documented notations"
        return if tag == Tag::Binary { Expect::Any } else { Expect::MustErr };
    }
    let vals: Vec<Val> = r
        .mags
        .iter()
        .filter(|m| if signed { m.fits_signed(r.neg, w) } else { m.fits_unsigned(r.neg, w) })
        .filter_map(|m| big_to_val(r.neg, m))
        .collect();
    let e = if vals.is_empty() {
        // property text: "or an error when it does not fit the target width"
        Expect::MustErr
    } else if r.cls == Cls::Strict
        && style == Style::Plain
        && matches!(tag, Tag::None | Tag::Int)
        && !(r.neg && r.mags[0].is_zero() && !signed)
    {
        Expect::Must(vals[0].clone())
    } else {
        Expect::Free(vals)
    };
    if tag == Tag::Binary { e.loosen() } else { e }
}

fn expect_float(text: &str, style: Style, tag: Tag, opt: Opt, is32: bool) -> Expect {
    let _ = opt;
    let f = float_read(text);
    let v = if is32 { f32v(f.v32) } else { f64v(f.v64) };
    let e = if f.cls == Cls::No {
        // a non-decimal / underscored integer into a float target: nothing is said
        if int_read(text, true).cls != Cls::No || int_read(text, false).cls != Cls::No {
            Expect::Any
        } else {
            Expect::MustErr
        }
    } else if leading_zero_intlike(text) {
        Expect::Any
    } else if (if is32 { f.strict32 } else { f.strict64 }) && style == Style::Plain && matches!(tag, Tag::None | Tag::Float) {
        Expect::Must(v)
    } else {
        Expect::Free(vec![v])
    };
    if tag == Tag::Binary { e.loosen() } else { e }
}

fn expect_bool(text: &str, style: Style, tag: Tag, opt: Opt) -> Expect {
    let b = bool_read(text);
    let doc_combo = style == Style::Plain && matches!(tag, Tag::None | Tag::Bool);
    let e = if b.cls == Cls::No {
        Expect::MustErr
    } else if opt.strict {
        // rustdoc strict_booleans: "interpret only the exact literals `true` and `false` as
        // booleans. YAML 1.1 forms like `yes`/`no`/`on`/`off` will be rejected"
        if !b.is_tf {
            Expect::MustErr
        } else if b.exact && doc_combo {
            Expect::Must(Val::Bool(b.val))
        } else {
            Expect::Free(vec![Val::Bool(b.val)])
        }
    } else if b.cls == Cls::Strict && doc_combo {
        Expect::Must(Val::Bool(b.val))
    } else {
        Expect::Free(vec![Val::Bool(b.val)])
    };
    if tag == Tag::Binary { e.loosen() } else { e }
}

fn expect_char(text: &str, style: Style, tag: Tag, opt: Opt) -> Expect {
    if tag == Tag::Binary {
        return Expect::Any;
    }
    let mut it = text.chars();
    let single = match (it.next(), it.next()) {
        (Some(c), None) => Some(c),
        _ => None,
    };
    // rustdoc deserialize_char: same null / no_schema rules as strings, "validated for length 1"
    match (str_like(text, style, tag, opt), single) {
        (Expect::Must(_), Some(c)) => Expect::Must(Val::Char(c)),
        (Expect::Free(_), Some(c)) => Expect::Free(vec![Val::Char(c)]),
        (Expect::Must(_), None) | (Expect::Free(_), None) | (Expect::MustErr, _) => Expect::MustErr,
        (Expect::Any, _) => Expect::Any,
    }
}

fn wrap_some(e: Expect, extra_none: bool) -> Expect {
    let some = |v: Val| Val::Some(Box::new(v));
    match e {
        Expect::Must(v) => {
            if extra_none {
                Expect::Free(vec![Val::None, some(v)])
            } else {
                Expect::Must(some(v))
            }
        }
        Expect::Free(vs) => {
            let mut out: Vec<Val> = vs.into_iter().map(some).collect();
            if extra_none {
                out.push(Val::None);
            }
            Expect::Free(out)
        }
        Expect::MustErr => {
            if extra_none {
                Expect::Free(vec![Val::None])
            } else {
                Expect::MustErr
            }
        }
        Expect::Any => Expect::Any,
    }
}

/// rustdoc deserialize_option: None for "a scalar that is empty-unquoted / `~` / `null` in plain style";
/// code comment "Tagged null -> None regardless of style/value" (kept grey unless the content is null too)
fn expect_option(text: &str, style: Style, tag: Tag, inner: Expect) -> Expect {
    let nc = null_class(text);
    if style == Style::Plain && nc == Cls::Strict && matches!(tag, Tag::None | Tag::Null) {
        return Expect::Must(Val::None);
    }
    if tag == Tag::Null {
        return wrap_some(inner, true);
    }
    match style {
        Style::Plain => wrap_some(inner, nc != Cls::No),
        // rustdoc of deserialize_option: None is "a scalar that is empty-unquoted / `~` / `null`
        // in plain style" - a block scalar spelling `~` / `null` is a string, an empty one may be None
        Style::Literal | Style::Folded => wrap_some(inner, text.is_empty()),
        Style::Single | Style::Double => wrap_some(inner, false),
    }
}

fn expect_unit(text: &str, style: Style, tag: Tag) -> Expect {
    // rustdoc deserialize_unit: "Accepted YAML forms: end-of-input, container end, or a null-like
    // scalar in plain style (`""`, `~`, `null`)"; "Anything else isn't a unit value"
    let nc = null_class(text);
    match style {
        Style::Plain => match nc {
            Cls::Strict => {
                if matches!(tag, Tag::None | Tag::Null) {
                    Expect::Must(Val::Unit)
                } else {
                    Expect::Free(vec![Val::Unit])
                }
            }
            Cls::Lenient => Expect::Free(vec![Val::Unit]),
            Cls::No => {
                if tag == Tag::Null {
                    Expect::Free(vec![Val::Unit])
                } else {
                    Expect::MustErr
                }
            }
        },
        Style::Single | Style::Double => {
            if tag == Tag::Null {
                Expect::Free(vec![Val::Unit])
            } else {
                Expect::MustErr
            }
        }
        Style::Literal | Style::Folded => {
            if tag == Tag::Null || nc != Cls::No {
                Expect::Free(vec![Val::Unit])
            } else {
                Expect::MustErr
            }
        }
    }
}

fn expect_bytes(text: &str, style: Style, tag: Tag) -> Expect {
    if tag != Tag::Binary {
        // an untagged scalar into a byte buffer: README only documents `!!binary` (and integer sequences)
        return Expect::Any;
    }
    // README: "`!!binary`-tagged YAML values are base64-decoded when deserializing into `Vec<u8>`";
    // "`!!binary` for other types like `Vec<u8>` will stay supported" (independent of the options);
    // property text: "strict canonical base64"; base64.rs: "may contain newlines or spaces"
    match b64_decode(text) {
        B64::Grey => Expect::Any,
        B64::Invalid => Expect::MustErr,
        B64::Valid(b) => {
            if style == Style::Plain && text.is_empty() {
                Expect::Free(vec![Val::Bytes(b)])
            } else {
                Expect::Must(Val::Bytes(b))
            }
        }
    }
}

fn u_int(neg: bool, m: &Big) -> Option<U> {
    match big_to_val(neg, m)? {
        Val::Int(i) => Some(U::Int(i)),
        Val::UInt(u) => Some(U::UInt(u)),
        _ => None,
    }
}

/// rustdoc deserialize_any: "we heuristically interpret plain, untagged values as native YAML
/// scalars (null-like -> bool -> int -> float) before falling back to string. Quoted scalars and
/// scalars with explicit non-string-friendly tags (or !!binary) are treated as strings."
fn expect_untyped(text: &str, style: Style, tag: Tag, opt: Opt) -> Expect {
    let s = || Val::U(U::s(text));
    let null = || Val::U(U::Null);
    match tag {
        Tag::Null => {
            if style == Style::Plain && null_class(text) == Cls::Strict {
                Expect::Must(null())
            } else {
                Expect::Free(vec![null(), s()])
            }
        }
        Tag::Str => {
            if style == Style::Plain && nullish_lenient(text) {
                Expect::Free(vec![null(), s()])
            } else {
                Expect::Must(s())
            }
        }
        Tag::Int | Tag::Float | Tag::Bool => Expect::Any,
        Tag::Binary => {
            if style == Style::Plain && text.is_empty() {
                return Expect::Any;
            }
            if opt.ignore_bin {
                return Expect::Free(vec![s()]);
            }
            match b64_decode(text) {
                B64::Valid(b) => match String::from_utf8(b.clone()) {
                    Ok(t) => Expect::Free(vec![Val::U(U::Str(t)), Val::U(U::Bytes(b))]),
                    Err(_) => Expect::Free(vec![Val::U(U::Bytes(b))]),
                },
                _ => Expect::Any,
            }
        }
        Tag::NonSpecific => {
            if style == Style::Plain && nullish_lenient(text) {
                Expect::Any
            } else {
                Expect::Free(vec![s()])
            }
        }
        Tag::None | Tag::Custom => {
            let base = match style {
                Style::Single | Style::Double => Expect::Must(s()),
                Style::Literal | Style::Folded => {
                    if nullish_lenient(text) {
                        Expect::Free(vec![null(), s()])
                    } else {
                        Expect::Must(s())
                    }
                }
                Style::Plain => untyped_plain(text, opt),
            };
            if tag == Tag::Custom { base.loosen() } else { base }
        }
    }
}

fn untyped_plain(text: &str, opt: Opt) -> Expect {
    let s = || Val::U(U::s(text));
    match null_class(text) {
        Cls::Strict => return Expect::Must(Val::U(U::Null)),
        Cls::Lenient => return Expect::Free(vec![Val::U(U::Null), s()]),
        Cls::No => {}
    }
    let b = bool_read(text);
    if b.cls != Cls::No {
        let bv = Val::U(U::Bool(b.val));
        return if b.cls == Cls::Lenient {
            Expect::Free(vec![bv, s()])
        } else if !opt.strict {
            Expect::Must(bv)
        } else if b.exact {
            Expect::Must(bv)
        } else if b.is_tf {
            Expect::Free(vec![bv, s()])
        } else {
            // strict_booleans: "YAML 1.1 forms like `yes`/`no`/`on`/`off` will be rejected and not inferred"
            Expect::Must(s())
        };
    }
    let f = float_read(text);
    let float_cands = |out: &mut Vec<Val>| {
        if f.cls != Cls::No {
            if f.v64.is_finite() {
                out.push(Val::U(U::float(f.v64)));
            } else {
                // deserialize_any delivers non-finite floats as canonical strings (code comment in de.rs)
                let canon = if f.v64.is_nan() {
                    ".nan"
                } else if f.v64 < 0.0 {
                    "-.inf"
                } else {
                    ".inf"
                };
                out.push(Val::U(U::s(canon)));
                out.push(Val::U(U::float(f.v64)));
            }
        }
    };
    let r = int_read(text, opt.legacy);
    if r.cls != Cls::No {
        let mut cands: Vec<Val> = r.mags.iter().filter_map(|m| u_int(r.neg, m)).map(Val::U).collect();
        let m = &r.mags[0];
        let fits64 = m.fits_signed(r.neg, 64) || m.fits_unsigned(r.neg, 64);
        if r.cls == Cls::Strict && fits64 {
            return Expect::Must(cands[0].clone());
        }
        float_cands(&mut cands);
        cands.push(s());
        return Expect::Free(cands);
    }
    if f.cls != Cls::No {
        if f.cls == Cls::Strict && f.strict64 && f.v64.is_finite() {
            return Expect::Must(Val::U(U::float(f.v64)));
        }
        let mut cands = vec![];
        float_cands(&mut cands);
        cands.push(s());
        return Expect::Free(cands);
    }
    Expect::Must(s())
}

/// The reference model: what must / may happen for one cell.
pub fn expect(text: &str, style: Style, tag: Tag, target: Target, opt: Opt) -> Expect {
    // style / tag outside the documented combination degrade Must to Free for the typed
    // non-string targets (e.g. quoted digits into an integer target)
    let typed = |e: Expect| if style == Style::Plain { e } else { e.degrade() };
    match target {
        Target::F32 => typed(expect_float(text, style, tag, opt, true)),
        Target::F64 => typed(expect_float(text, style, tag, opt, false)),
        Target::Bool => typed(expect_bool(text, style, tag, opt)),
        Target::Char => expect_char(text, style, tag, opt),
        Target::Str => expect_string(text, style, tag, opt),
        Target::OptI64 => {
            let inner = typed(expect_int(text, style, tag, opt, true, 64));
            let e = expect_option(text, style, tag, inner);
            // quoted null-looking content into Option<i64>: grey
            if is_quoted(style) && nullish_lenient(text) {
                match e {
                    Expect::MustErr => Expect::Free(vec![Val::None]),
                    o => o,
                }
            } else {
                e
            }
        }
        Target::OptStr => {
            if tag == Tag::Binary {
                // a `!!binary` scalar is a payload, never a null
                return wrap_some(expect_string(text, style, tag, opt), false);
            }
            expect_option(text, style, tag, expect_string(text, style, tag, opt))
        }
        Target::Unit => expect_unit(text, style, tag),
        Target::Bytes | Target::VecU8 => expect_bytes(text, style, tag),
        Target::OptVecU8 => {
            if tag != Tag::Binary {
                return Expect::Any;
            }
            // a `!!binary` scalar is a payload, never a null (the base64 text of some byte strings spells `null`)
            wrap_some(expect_bytes(text, style, tag), false)
        }
        Target::Untyped => expect_untyped(text, style, tag, opt),
        t => {
            let (signed, w) = t.int().expect("integer target");
            typed(expect_int(text, style, tag, opt, signed, w))
        }
    }
}
