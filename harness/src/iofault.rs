//! Instrumented `Read` / `Write` implementations and chunk schedules shared by C09 and C10.
//!
//! Everything here is deterministic and describable as JSON (cases are written to replay
//! files).  The reader never returns `Ok(0)` before the end of its data, never delivers more
//! than the caller's buffer, and turns "the consumer keeps polling after the end" into a panic
//! with a sentinel payload instead of a stuck worker.
use serde::{Deserialize, Serialize};
use std::io::{self, Read, Write};

/// Payload prefix of the panic raised when a consumer polls the reader / writer more than
/// `MAX_END_POLLS` times after it reported end of input (or its fault).
pub const SENTINEL: &str = "VCHECK-SENTINEL";
pub const MAX_END_POLLS: usize = 10_000;

// ------------------------------------------------------------------------------------------
// error kinds

#[derive(Clone, Copy, Debug, Serialize, Deserialize, PartialEq, Eq, Hash, PartialOrd, Ord)]
pub enum Kind {
    Other,
    BrokenPipe,
    TimedOut,
    WouldBlock,
    InvalidData,
    UnexpectedEof,
}
impl Kind {
    /// `Interrupted` is deliberately absent: std retries it, the property excludes it.
    pub const ALL: [Kind; 6] = [
        Kind::Other,
        Kind::BrokenPipe,
        Kind::TimedOut,
        Kind::WouldBlock,
        Kind::InvalidData,
        Kind::UnexpectedEof,
    ];
    pub fn io(self) -> io::ErrorKind {
        match self {
            Kind::Other => io::ErrorKind::Other,
            Kind::BrokenPipe => io::ErrorKind::BrokenPipe,
            Kind::TimedOut => io::ErrorKind::TimedOut,
            Kind::WouldBlock => io::ErrorKind::WouldBlock,
            Kind::InvalidData => io::ErrorKind::InvalidData,
            Kind::UnexpectedEof => io::ErrorKind::UnexpectedEof,
        }
    }
    pub fn error(self) -> io::Error {
        io::Error::new(self.io(), "injected fault")
    }
}

// ------------------------------------------------------------------------------------------
// chunk schedules

/// How the bytes of an input are partitioned into `read` results.
#[derive(Clone, Debug, Serialize, Deserialize, PartialEq, Eq, Hash)]
pub enum Sched {
    /// as much as the caller's buffer takes
    All,
    /// at most n bytes per call (n >= 1)
    Fixed(usize),
    /// read results end exactly at these byte offsets (strictly increasing, inside (0, len));
    /// between two cuts one call delivers everything the caller's buffer takes
    Cuts(Vec<usize>),
}
impl Sched {
    /// End of the chunk that starts at `pos` (exclusive), for data of length `len`.
    pub fn chunk_end(&self, pos: usize, len: usize) -> usize {
        match self {
            Sched::All => len,
            Sched::Fixed(n) => (pos + (*n).max(1)).min(len),
            Sched::Cuts(c) => {
                // first cut > pos
                let i = c.partition_point(|&x| x <= pos);
                c.get(i).copied().unwrap_or(len).min(len)
            }
        }
    }
    /// Cut positions of this schedule over `len` bytes when the caller's buffer is unbounded.
    pub fn cuts(&self, len: usize) -> Vec<usize> {
        let mut v = vec![];
        let mut p = 0;
        while p < len {
            let e = self.chunk_end(p, len);
            if e < len {
                v.push(e);
            }
            p = e.max(p + 1);
        }
        v
    }
    /// Schedule from a bit mask over the n-1 inner positions of an n-byte input
    /// (bit i set = a cut after byte i).
    pub fn from_mask(mask: u64, len: usize) -> Sched {
        let mut c = vec![];
        for i in 0..len.saturating_sub(1) {
            if mask >> i & 1 == 1 {
                c.push(i + 1);
            }
        }
        Sched::Cuts(c)
    }
    /// Does a read boundary fall strictly inside a multi-byte character of `text`?
    pub fn splits_char(&self, text: &str) -> bool {
        self.cuts(text.len()).iter().any(|&c| !text.is_char_boundary(c))
    }
}

/// Adversarial cut positions for a YAML text: inside every multi-byte character (every inner
/// byte position), between `\r` and `\n`, between `-` and a following space, after each `:`,
/// around the BOM.
pub fn adversarial_cuts(text: &str) -> Vec<usize> {
    let b = text.as_bytes();
    let mut c = vec![];
    for i in 1..b.len() {
        let inside = !text.is_char_boundary(i);
        let crlf = b[i - 1] == b'\r' && b[i] == b'\n';
        let dash = b[i - 1] == b'-' && (b[i] == b' ' || b[i] == b'\n' || b[i] == b'-');
        let colon = b[i - 1] == b':';
        if inside || crlf || dash || colon {
            c.push(i);
        }
    }
    c
}

// ------------------------------------------------------------------------------------------
// reader

#[derive(Clone, Copy, Debug, Serialize, Deserialize, PartialEq, Eq, Hash)]
pub enum After {
    /// every later call fails again with the same kind
    Sticky,
    /// every later call reports a clean end of input
    CleanEof,
}
#[derive(Clone, Copy, Debug, Serialize, Deserialize, PartialEq, Eq, Hash)]
pub enum FaultAt {
    /// the call that would deliver byte k fails (k == len: the call that would report EOF)
    Byte(usize),
    /// the n-th `read` call with a non-empty buffer (0-based) fails
    Call(usize),
}
#[derive(Clone, Copy, Debug, Serialize, Deserialize, PartialEq, Eq, Hash)]
pub struct ReadFault {
    pub at: FaultAt,
    pub kind: Kind,
    pub after: After,
}

#[derive(Clone, Copy, PartialEq, Eq, Debug)]
enum Ended {
    No,
    Eof,
    Fault,
}

pub struct FaultyReader<'d> {
    data: &'d [u8],
    /// endless mode: after `data`, this unit repeats forever
    tail: Option<&'d [u8]>,
    sched: &'d Sched,
    fault: Option<ReadFault>,
    pos: usize,
    ended: Ended,
    /// endless mode guard: after this many bytes the reader gives up (reports EOF, sets `overrun`)
    pub hard_limit: usize,
    pub overrun: bool,
    /// number of `read` calls with a non-empty buffer
    pub calls: usize,
    /// bytes handed out
    pub handed: usize,
    /// how often the injected fault was returned
    pub fault_hits: usize,
    /// how often a clean end of input was returned
    pub eof_returns: usize,
    /// calls after the first end-of-input / fault
    pub end_polls: usize,
    /// position of the stream at the start of each call (first 4096 calls)
    pub pos_at_call: Vec<usize>,
    /// did any delivered chunk end strictly inside a multi-byte character?  (needs valid UTF-8 data)
    pub split_inside_char: bool,
}

impl<'d> FaultyReader<'d> {
    pub fn new(data: &'d [u8], sched: &'d Sched) -> Self {
        FaultyReader {
            data,
            tail: None,
            sched,
            fault: None,
            pos: 0,
            ended: Ended::No,
            hard_limit: usize::MAX,
            overrun: false,
            calls: 0,
            handed: 0,
            fault_hits: 0,
            eof_returns: 0,
            end_polls: 0,
            pos_at_call: vec![],
            split_inside_char: false,
        }
    }
    pub fn with_fault(mut self, f: ReadFault) -> Self {
        self.fault = Some(f);
        self
    }
    /// Endless stream `data ++ unit ++ unit ++ ...`; gives up after `hard_limit` bytes.
    pub fn endless(mut self, unit: &'d [u8], hard_limit: usize) -> Self {
        assert!(!unit.is_empty());
        self.tail = Some(unit);
        self.hard_limit = hard_limit;
        self
    }
    fn byte_at(&self, i: usize) -> u8 {
        if i < self.data.len() {
            self.data[i]
        } else {
            let t = self.tail.unwrap();
            t[(i - self.data.len()) % t.len()]
        }
    }
    fn is_continuation(b: u8) -> bool {
        b & 0b1100_0000 == 0b1000_0000
    }
}

impl Read for FaultyReader<'_> {
    fn read(&mut self, buf: &mut [u8]) -> io::Result<usize> {
        if buf.is_empty() {
            return Ok(0);
        }
        let n = self.calls;
        self.calls += 1;
        if self.pos_at_call.len() < 4096 {
            self.pos_at_call.push(self.pos);
        }
        if self.ended != Ended::No {
            self.end_polls += 1;
            if self.end_polls > MAX_END_POLLS {
                panic!("{SENTINEL}: reader polled more than {MAX_END_POLLS} times after it ended");
            }
            return match (self.ended, self.fault) {
                (Ended::Fault, Some(f)) if f.after == After::Sticky => {
                    self.fault_hits += 1;
                    Err(f.kind.error())
                }
                _ => {
                    self.eof_returns += 1;
                    Ok(0)
                }
            };
        }
        if let Some(f) = self.fault {
            let hit = match f.at {
                FaultAt::Call(c) => n == c,
                FaultAt::Byte(k) => self.pos == k,
            };
            if hit {
                self.ended = Ended::Fault;
                self.fault_hits += 1;
                return Err(f.kind.error());
            }
        }
        let endless = self.tail.is_some();
        if endless && self.handed >= self.hard_limit {
            self.overrun = true;
            self.ended = Ended::Eof;
            self.eof_returns += 1;
            return Ok(0);
        }
        if !endless && self.pos >= self.data.len() {
            self.ended = Ended::Eof;
            self.eof_returns += 1;
            return Ok(0);
        }
        let mut end = if endless {
            match self.sched {
                Sched::Fixed(k) => self.pos + (*k).max(1),
                _ => self.pos + buf.len(),
            }
        } else {
            self.sched.chunk_end(self.pos, self.data.len())
        };
        if let Some(ReadFault { at: FaultAt::Byte(k), .. }) = self.fault {
            if k > self.pos && k < end {
                end = k;
            }
        }
        let m = (end - self.pos).min(buf.len()).max(1);
        for (i, slot) in buf.iter_mut().take(m).enumerate() {
            *slot = self.byte_at(self.pos + i);
        }
        self.pos += m;
        self.handed += m;
        if !endless && self.pos < self.data.len() && Self::is_continuation(self.data[self.pos]) {
            self.split_inside_char = true;
        }
        Ok(m)
    }
}

// ------------------------------------------------------------------------------------------
// writer

#[derive(Clone, Copy, Debug, Serialize, Deserialize, PartialEq, Eq, Hash)]
pub enum WFaultAt {
    /// the n-th `write` call (0-based) fails
    Call(usize),
    /// the writer accepts exactly k bytes (shortening the write that crosses k), then fails
    Bytes(usize),
    /// only the n-th `write` call fails (a transient fault): later calls are accepted again, so
    /// anything the serializer still writes after the failed call breaks the prefix
    CallOnce(usize),
}
#[derive(Clone, Copy, Debug, Serialize, Deserialize, PartialEq, Eq, Hash)]
pub enum WMode {
    Err(Kind),
    /// `write` returns `Ok(0)`; `write_all` must turn that into `ErrorKind::WriteZero`
    Zero,
}
#[derive(Clone, Copy, Debug, Serialize, Deserialize, PartialEq, Eq, Hash)]
pub struct WriteFault {
    pub at: WFaultAt,
    pub mode: WMode,
}
impl WriteFault {
    pub fn expected_kind(&self) -> io::ErrorKind {
        match self.mode {
            WMode::Err(k) => k.io(),
            WMode::Zero => io::ErrorKind::WriteZero,
        }
    }
}

pub struct FaultyWriter {
    /// accept at most this many bytes per call (0 = everything)
    short: usize,
    fault: Option<WriteFault>,
    failed: bool,
    pub accepted: Vec<u8>,
    pub calls: usize,
    pub fault_hits: usize,
    pub flushes: usize,
    pub end_polls: usize,
}
impl FaultyWriter {
    pub fn new(short: usize, fault: Option<WriteFault>) -> Self {
        FaultyWriter { short, fault, failed: false, accepted: vec![], calls: 0, fault_hits: 0, flushes: 0, end_polls: 0 }
    }
    fn fail(&mut self) -> io::Result<usize> {
        self.fault_hits += 1;
        match self.fault.unwrap().mode {
            WMode::Err(k) => Err(k.error()),
            WMode::Zero => Ok(0),
        }
    }
}
impl Write for FaultyWriter {
    fn write(&mut self, buf: &[u8]) -> io::Result<usize> {
        if buf.is_empty() {
            return Ok(0);
        }
        let n = self.calls;
        self.calls += 1;
        if self.failed {
            self.end_polls += 1;
            if self.end_polls > MAX_END_POLLS {
                panic!("{SENTINEL}: writer called more than {MAX_END_POLLS} times after it failed");
            }
            return self.fail();
        }
        let mut room = usize::MAX;
        if let Some(f) = self.fault {
            match f.at {
                WFaultAt::Call(c) => {
                    if n == c {
                        self.failed = true;
                        return self.fail();
                    }
                }
                WFaultAt::CallOnce(c) => {
                    if n == c {
                        return self.fail();
                    }
                }
                WFaultAt::Bytes(k) => {
                    if self.accepted.len() >= k {
                        self.failed = true;
                        return self.fail();
                    }
                    room = k - self.accepted.len();
                }
            }
        }
        let mut m = buf.len().min(room);
        if self.short > 0 {
            m = m.min(self.short);
        }
        self.accepted.extend_from_slice(&buf[..m]);
        Ok(m)
    }
    fn flush(&mut self) -> io::Result<()> {
        self.flushes += 1;
        Ok(())
    }
}

// ------------------------------------------------------------------------------------------
// the open C01 finding every reader check has to stay away from

/// Would a reader entry point hang on this (possibly truncated) input?  Known open defect of
/// the parser dependency: text after the last line break starts with `%` and runs to the end
/// of input without a break.  Conservative: blanks before the `%` and a BOM / NEL / LS / PS in
/// front of it are treated like a line start as well.
pub fn percent_tail(bytes: &[u8]) -> bool {
    let mut start = 0;
    for (i, &b) in bytes.iter().enumerate() {
        if b == b'\n' || b == b'\r' {
            start = i + 1;
        }
    }
    let line = &bytes[start..];
    let mut at_start = true;
    let mut i = 0;
    while i < line.len() {
        let rest = &line[i..];
        if at_start && rest[0] == b'%' {
            return true;
        }
        if rest[0] == b' ' || rest[0] == b'\t' {
            i += 1;
        } else if rest.starts_with(b"\xEF\xBB\xBF") || rest.starts_with(b"\xE2\x80\xA8") || rest.starts_with(b"\xE2\x80\xA9") {
            at_start = true;
            i += 3;
        } else if rest.starts_with(b"\xC2\x85") {
            at_start = true;
            i += 2;
        } else {
            at_start = false;
            i += 1;
        }
    }
    false
}

/// Does any prefix of `bytes` (including the whole) have the hanging shape?
pub fn any_prefix_percent_tail(bytes: &[u8]) -> bool {
    // a prefix has the shape iff it ends inside a line whose first non-blank byte is '%':
    // it suffices to test the prefixes that end right after each '%'
    (0..bytes.len()).any(|i| bytes[i] == b'%' && percent_tail(&bytes[..=i]))
}

// ------------------------------------------------------------------------------------------
// self check of the instruments (called from the properties' selfcheck)

pub fn selfcheck() -> Result<(), String> {
    let text = "aé😀\r\n- x: y\n";
    let data = text.as_bytes();
    // every schedule delivers exactly the data, never 0 before the end
    let mut scheds = vec![Sched::All, Sched::Fixed(1), Sched::Fixed(3), Sched::Cuts(adversarial_cuts(text))];
    for mask in 0..(1u64 << (data.len() - 1)).min(4096) {
        scheds.push(Sched::from_mask(mask, data.len()));
    }
    for s in &scheds {
        for bufsize in [1usize, 2, 5, 64] {
            let mut r = FaultyReader::new(data, s);
            let mut got = vec![];
            let mut buf = vec![0u8; bufsize];
            let mut ends = vec![];
            loop {
                let n = r.read(&mut buf).map_err(|e| e.to_string())?;
                if n == 0 {
                    break;
                }
                got.extend_from_slice(&buf[..n]);
                ends.push(got.len());
            }
            if got != data {
                return Err(format!("reader with {s:?} delivered {got:?}"));
            }
            if bufsize == 64 {
                let mut want = s.cuts(data.len());
                want.push(data.len());
                if ends != want {
                    return Err(format!("reader with {s:?} cut at {ends:?}, schedule says {want:?}"));
                }
            }
            if r.eof_returns != 1 || r.handed != data.len() {
                return Err("reader statistics wrong".into());
            }
        }
    }
    if !Sched::Cuts(adversarial_cuts(text)).splits_char(text) || Sched::All.splits_char(text) {
        return Err("splits_char wrong".into());
    }
    // faults
    for k in 0..=data.len() {
        for after in [After::Sticky, After::CleanEof] {
            let s = Sched::Fixed(4);
            let mut r = FaultyReader::new(data, &s).with_fault(ReadFault { at: FaultAt::Byte(k), kind: Kind::TimedOut, after });
            let mut got = vec![];
            let mut buf = [0u8; 64];
            let e = loop {
                match r.read(&mut buf) {
                    Ok(0) => break None,
                    Ok(n) => got.extend_from_slice(&buf[..n]),
                    Err(e) => break Some(e),
                }
            };
            if e.map(|e| e.kind()) != Some(io::ErrorKind::TimedOut) || got != data[..k] {
                return Err(format!("fault at byte {k}: delivered {got:?}"));
            }
            let again = r.read(&mut buf);
            match (after, again) {
                (After::Sticky, Err(_)) | (After::CleanEof, Ok(0)) => {}
                other => return Err(format!("post-fault behaviour wrong: {other:?}")),
            }
        }
    }
    {
        let s = Sched::Fixed(2);
        let mut r = FaultyReader::new(data, &s).with_fault(ReadFault { at: FaultAt::Call(2), kind: Kind::Other, after: After::Sticky });
        let mut buf = [0u8; 64];
        if r.read(&mut buf).ok() != Some(2) || r.read(&mut buf).ok() != Some(2) || r.read(&mut buf).is_ok() {
            return Err("fault at call 2 wrong".into());
        }
    }
    {
        let s = Sched::All;
        let mut r = FaultyReader::new(b"ab", &s).endless(b"xyz", 100);
        let mut buf = [0u8; 7];
        let mut got = vec![];
        loop {
            let n = r.read(&mut buf).unwrap();
            if n == 0 {
                break;
            }
            got.extend_from_slice(&buf[..n]);
        }
        if !r.overrun || !got.starts_with(b"abxyzxyzxy") || got.len() < 100 || got.len() > 107 {
            return Err("endless reader wrong".into());
        }
    }
    // writer
    for short in [0usize, 1, 3] {
        for k in 0..12 {
            let mut w = FaultyWriter::new(short, Some(WriteFault { at: WFaultAt::Bytes(k), mode: WMode::Err(Kind::BrokenPipe) }));
            let r = w.write_all(b"hello").and_then(|_| w.write_all(b"world"));
            if k < 10 {
                if r.as_ref().err().map(|e| e.kind()) != Some(io::ErrorKind::BrokenPipe) || w.accepted != b"helloworld"[..k] {
                    return Err(format!("writer fault after {k} bytes: {:?} {:?}", r, w.accepted));
                }
            } else if r.is_err() || w.accepted != b"helloworld" {
                return Err("writer without reachable fault wrong".into());
            }
        }
    }
    {
        let mut w = FaultyWriter::new(0, Some(WriteFault { at: WFaultAt::Call(1), mode: WMode::Zero }));
        let r = w.write_all(b"hello").and_then(|_| w.write_all(b"world"));
        if r.err().map(|e| e.kind()) != Some(io::ErrorKind::WriteZero) || w.accepted != b"hello" {
            return Err("writer Ok(0) fault wrong".into());
        }
    }
    // the hazard predicate
    for (t, want) in [("%", true), ("%a", true), ("a\n%YAML", true), ("a\n%YAML\n", false), ("a: %", false), ("\u{FEFF}%", true), ("a\r %x", true), ("", false), ("a%", false)] {
        if percent_tail(t.as_bytes()) != want {
            return Err(format!("percent_tail({t:?}) != {want}"));
        }
    }
    if !any_prefix_percent_tail(b"%YAML 1.2\n---\na") || any_prefix_percent_tail(b"a: 1\nb: 50%\n") {
        return Err("any_prefix_percent_tail wrong".into());
    }
    Ok(())
}
