//! Core of the C01 totality check, shared by the `c01` binary and the libFuzzer target
//! `fuzz/fuzz_targets/c01_total.rs`: option vectors, target family, and the function that drives
//! every entry point over one input.
use crate::iofault::{percent_tail, SENTINEL};
use crate::opts::{BudgetD, BudgetSel, DeOpts, Dup};
use crate::untyped::U;
use serde::de::{DeserializeOwned, IgnoredAny};
use serde::Deserialize;
use std::borrow::Cow;
use std::collections::{BTreeMap, HashMap};

// ---------------- option vectors -----------------------------------------------------------------
pub fn option_family() -> Vec<DeOpts> {
    let d = DeOpts::default();
    let tiny = BudgetD { max_events: 12, max_nodes: 5, max_depth: 2, max_aliases: 1, max_anchors: 1, max_documents: 2, max_total_scalar_bytes: 16, max_merge_keys: 1, max_reader_input_bytes: Some(64), enforce_ratio: true, ratio_min_aliases: 1, ratio_multiplier: 1 };
    let mut extreme = BudgetD::unlimited();
    extreme.max_reader_input_bytes = Some(usize::MAX);
    extreme.enforce_ratio = true;
    extreme.ratio_min_aliases = 0;
    extreme.ratio_multiplier = usize::MAX;
    vec![
        d.clone(),
        DeOpts { budget: BudgetSel::Explicit(tiny), dup: Dup::First, crop: 1, ..d.clone() },
        DeOpts { budget: BudgetSel::Explicit(extreme), dup: Dup::Last, crop: usize::MAX, max_total_replayed_events: usize::MAX, max_replay_stack_depth: usize::MAX, ..d.clone() },
        DeOpts { dup: Dup::Last, legacy_octal: true, strict_bool: true, ignore_binary: true, angle: true, no_schema: true, crop: 0, ..d.clone() },
        DeOpts { snippet: false, max_total_replayed_events: 0, max_replay_stack_depth: 0, max_alias_expansions_per_anchor: 0, crop: 7, ..d.clone() },
        DeOpts { angle: true, dup: Dup::First, max_alias_expansions_per_anchor: 1, max_replay_stack_depth: 1, crop: 5, ..d.clone() },
        DeOpts { budget: BudgetSel::None, no_schema: true, crop: 64, ..d.clone() },
    ]
}

// ---------------- target family --------------------------------------------------------------------
#[derive(Debug, Deserialize)]
#[allow(dead_code)]
struct St {
    a: i32,
    b: Option<String>,
    #[serde(default)]
    c: Vec<bool>,
}
#[derive(Debug, Deserialize)]
#[serde(deny_unknown_fields)]
#[allow(dead_code)]
struct Strict {
    x: Option<f64>,
    y: Option<En>,
    z: Option<serde_bytes::ByteBuf>,
}
#[derive(Debug, Deserialize)]
#[allow(dead_code)]
enum En {
    Unit,
    New(i64),
    Tup(u8, String),
    Str { f: f32, g: Option<Box<En>> },
}
#[derive(Debug, Deserialize, garde::Validate)]
#[allow(dead_code)]
struct Gv {
    #[garde(length(min = 1, max = 4))]
    a: Option<String>,
    #[garde(range(min = 0, max = 9))]
    #[serde(default)]
    n: i32,
}
#[derive(Debug, Deserialize, validator::Validate)]
#[allow(dead_code)]
struct Vv {
    #[validate(length(min = 1, max = 4))]
    a: Option<String>,
    #[validate(range(min = 0, max = 9))]
    #[serde(default)]
    n: i32,
}
#[derive(Debug, Deserialize)]
#[allow(dead_code)]
struct Borrowing<'a> {
    #[serde(borrow)]
    a: Option<&'a str>,
    #[serde(borrow)]
    b: Option<Cow<'a, str>>,
}

/// everything a returned error can be turned into
fn render_all(e: &serde_saphyr::Error) {
    let _ = e.to_string();
    let _ = format!("{e:?}");
    let _ = e.render();
    let _ = e.render_with_formatter(&serde_saphyr::UserMessageFormatter);
    let _ = e.render_with_formatter(&serde_saphyr::DefaultMessageFormatter);
    let mut ro = serde_saphyr::RenderOptions::default();
    ro.snippets = serde_saphyr::SnippetMode::Off;
    let _ = e.render_with_options(ro);
    let mut ro = serde_saphyr::RenderOptions::default();
    ro.formatter = &serde_saphyr::UserMessageFormatter;
    let _ = e.render_with_options(ro);
    let _ = e.without_snippet().to_string();
    let _ = e.location();
    let _ = e.locations();
}
fn done<T>(r: Result<T, serde_saphyr::Error>) {
    if let Err(e) = r {
        render_all(&e);
    }
}

struct Chunked<'a> {
    data: &'a [u8],
    chunk: usize,
    end_polls: usize,
}
impl<'a> std::io::Read for Chunked<'a> {
    fn read(&mut self, buf: &mut [u8]) -> std::io::Result<usize> {
        if buf.is_empty() {
            return Ok(0);
        }
        if self.data.is_empty() {
            self.end_polls += 1;
            if self.end_polls > 10_000 {
                panic!("{SENTINEL}: reader polled more than 10000 times after end of input");
            }
            return Ok(0);
        }
        let n = self.chunk.min(buf.len()).min(self.data.len());
        buf[..n].copy_from_slice(&self.data[..n]);
        self.data = &self.data[n..];
        Ok(n)
    }
}

fn str_entry_points<T: DeserializeOwned>(s: &str, o: &DeOpts) {
    done(serde_saphyr::from_str::<T>(s));
    done(serde_saphyr::from_str_with_options::<T>(s, o.build()));
    done(serde_saphyr::from_multiple_with_options::<T>(s, o.build()));
}
fn slice_entry_points<T: DeserializeOwned>(b: &[u8], o: &DeOpts) {
    done(serde_saphyr::from_slice_with_options::<T>(b, o.build()));
    done(serde_saphyr::from_slice_multiple_with_options::<T>(b, o.build()));
}
fn reader_entry_points<T: DeserializeOwned>(b: &[u8], o: &DeOpts, chunks: &[usize]) -> Result<(), String> {
    for &chunk in chunks {
        done(serde_saphyr::from_reader_with_options::<_, T>(Chunked { data: b, chunk, end_polls: 0 }, o.build()));
        let mut rd = Chunked { data: b, chunk, end_polls: 0 };
        let mut n = 0usize;
        for r in serde_saphyr::read_with_options::<_, T>(&mut rd, o.build()) {
            n += 1;
            if let Err(e) = r {
                render_all(&e);
            }
            if n > b.len() + 2 {
                return Err(format!("read iterator yielded more than len+2 = {} items (does not terminate)", b.len() + 2));
            }
        }
    }
    Ok(())
}

pub fn run_all(b: &[u8], o: &DeOpts, reader_ok: bool, heavy: bool) -> Result<(), String> {
    let text = std::str::from_utf8(b).ok();
    // chunk sizes for the reader: byte-wise only for short inputs
    let chunks: &[usize] = if b.len() <= 4096 { &[1, 3, 8192] } else { &[8192] };
    if let Some(s) = text {
        str_entry_points::<U>(s, o);
        str_entry_points::<IgnoredAny>(s, o);
        if !heavy {
            str_entry_points::<serde_json::Value>(s, o);
            str_entry_points::<St>(s, o);
            str_entry_points::<Strict>(s, o);
            str_entry_points::<En>(s, o);
            str_entry_points::<BTreeMap<String, i64>>(s, o);
            str_entry_points::<Vec<String>>(s, o);
            str_entry_points::<(i32, String)>(s, o);
            str_entry_points::<Option<f64>>(s, o);
            str_entry_points::<serde_bytes::ByteBuf>(s, o);
            str_entry_points::<serde_saphyr::Spanned<U>>(s, o);
            str_entry_points::<Vec<serde_saphyr::Spanned<i64>>>(s, o);
            str_entry_points::<serde_saphyr::RcAnchor<Vec<serde_saphyr::RcAnchor<String>>>>(s, o);
            str_entry_points::<char>(s, o);
            str_entry_points::<u8>(s, o);
            str_entry_points::<i128>(s, o);
            str_entry_points::<()>(s, o);
            // borrowed targets
            done(serde_saphyr::from_str::<&str>(s));
            done(serde_saphyr::from_str_with_options::<Borrowing>(s, o.build()));
            done(serde_saphyr::from_str_with_options::<HashMap<&str, &str>>(s, o.build()));
            done(serde_saphyr::from_str_with_options::<Cow<str>>(s, o.build()));
            // closure helpers
            done(serde_saphyr::with_deserializer_from_str_with_options(s, o.build(), |d| U::deserialize(d)));
            done(serde_saphyr::with_deserializer_from_str(s, |d| St::deserialize(d)));
            // validating entry points
            done(serde_saphyr::from_str_with_options_valid::<Gv>(s, o.build()));
            done(serde_saphyr::from_multiple_with_options_valid::<Gv>(s, o.build()));
            done(serde_saphyr::from_str_with_options_validate::<Vv>(s, o.build()));
            done(serde_saphyr::from_multiple_with_options_validate::<Vv>(s, o.build()));
        }
        // budget helpers
        let budget = match &o.budget {
            BudgetSel::Explicit(bd) => bd.build(),
            _ => serde_saphyr::Budget::default(),
        };
        let _ = serde_saphyr::budget::check_yaml_budget(s, budget.clone(), serde_saphyr::budget::EnforcingPolicy::AllContent);
        let _ = serde_saphyr::budget::check_yaml_budget(s, budget.clone(), serde_saphyr::budget::EnforcingPolicy::PerDocument);
        let _ = serde_saphyr::budget::parse_yaml(s, budget);
    }
    slice_entry_points::<U>(b, o);
    if !heavy {
        slice_entry_points::<St>(b, o);
        done(serde_saphyr::with_deserializer_from_slice_with_options(b, o.build(), |d| U::deserialize(d)));
        done(serde_saphyr::from_slice_with_options::<HashMap<&str, &str>>(b, o.build()));
    }
    if reader_ok {
        reader_entry_points::<U>(b, o, chunks)?;
        if !heavy {
            reader_entry_points::<St>(b, o, &chunks[chunks.len() - 1..])?;
            reader_entry_points::<IgnoredAny>(b, o, &chunks[chunks.len() - 1..])?;
            done(serde_saphyr::with_deserializer_from_reader_with_options(Chunked { data: b, chunk: 5, end_polls: 0 }, o.build(), |d| U::deserialize(d)));
            done(serde_saphyr::from_reader_with_options_valid::<_, Gv>(Chunked { data: b, chunk: 8192, end_polls: 0 }, o.build()));
            done(serde_saphyr::from_reader_with_options_validate::<_, Vv>(Chunked { data: b, chunk: 8192, end_polls: 0 }, o.build()));
        }
    }
    Ok(())
}

/// Open findings in the parser dependency that only reader entry points can reach:
/// (a) they hang on input whose last line starts with `%` and has no line break;
/// (b) with debug assertions compiled in, the scanner's `skip_break` assertion fires when the
///     input ends abruptly (invalid UTF-8 / I/O error) inside a block scalar.
pub fn reader_hazard_opts(b: &[u8], o: &DeOpts) -> bool {
    if reader_hazard(b) {
        return true;
    }
    // a reader input cap ends the stream abruptly after `cap` bytes: the same two findings are
    // reached when the cut falls inside a `%` line or inside a block scalar
    if let BudgetSel::Explicit(bd) = &o.budget {
        if let Some(cap) = bd.max_reader_input_bytes {
            if cap < b.len() {
                let head = &b[..cap];
                return percent_tail(head) || percent_tail(&b[..(cap + 1).min(b.len())]) || head.iter().any(|x| matches!(x, b'|' | b'>'));
            }
        }
    }
    false
}

pub fn reader_hazard(b: &[u8]) -> bool {
    match std::str::from_utf8(b) {
        Ok(_) => percent_tail(b),
        // not UTF-8 (may be decoded as UTF-16 / lossy): stay away from any '%', '|' and '>'
        Err(_) => b.iter().any(|x| matches!(x, b'%' | b'|' | b'>')),
    }
}

