//! Run-time type descriptions (`Ty`), values (`DV`) and `Serialize` / `DeserializeSeed`
//! implementations that call exactly the serde methods a `#[derive]`d type of that shape would
//! call. Lets C05 / C13 / C20 quantify over *types* without monomorphising Rust types.
use proptest::prelude::*;
use serde::de::{self, DeserializeSeed, Deserializer, EnumAccess, IgnoredAny, MapAccess, SeqAccess, VariantAccess, Visitor};
use serde::ser::{self, Serialize, SerializeMap, SerializeSeq, SerializeStruct, SerializeStructVariant, SerializeTuple, SerializeTupleStruct, SerializeTupleVariant, Serializer};
use serde::{Deserialize as De, Serialize as Se};

pub static FIELDS: [&str; 4] = ["a", "b", "c", "d"];
pub static VARS: [&str; 4] = ["Va", "Vb", "Vc", "Vd"];

#[derive(Debug, Clone, PartialEq, Eq, Hash, Se, De)]
pub enum VK {
    Unit,
    New(Box<Ty>),
    Tup(Vec<Ty>),
    St(Vec<Ty>),
}
#[derive(Debug, Clone, PartialEq, Eq, Hash, Se, De)]
pub enum Ty {
    Unit,
    Bool,
    Int,
    Str,
    Opt(Box<Ty>),
    Seq(Box<Ty>),
    Tuple(Vec<Ty>),
    Map(Box<Ty>, Box<Ty>),
    /// fields a, b, c, d (in this order); `deny` = #[serde(deny_unknown_fields)]
    Struct(Vec<Ty>, bool),
    Enum(Vec<VK>),
    /// newtype struct
    NT(Box<Ty>),
    /// tuple struct
    TS(Vec<Ty>),
}
#[derive(Debug, Clone, PartialEq, Eq, Hash, Se, De)]
pub enum DV {
    Unit,
    Bool(bool),
    Int(i64),
    Str(String),
    None,
    Some(Box<DV>),
    Seq(Vec<DV>),
    Map(Vec<(DV, DV)>),
    Struct(Vec<DV>),
    /// variant index, payload items
    Var(usize, Vec<DV>),
    NT(Box<DV>),
}

// ------------------------------------------------------------------------------------------
// Serialize

thread_local! {
    static UNKNOWN_LEN: std::cell::Cell<bool> = const { std::cell::Cell::new(false) };
}
/// While `f` runs, `S` announces no length for sequences and maps (`serialize_seq(None)` /
/// `serialize_map(None)`), the way `collect_seq` over a filtering iterator or a hand-written
/// impl does.
pub fn with_unknown_len<R>(f: impl FnOnce() -> R) -> R {
    UNKNOWN_LEN.with(|c| c.set(true));
    let r = f();
    UNKNOWN_LEN.with(|c| c.set(false));
    r
}
fn len_hint(n: usize) -> Option<usize> {
    if UNKNOWN_LEN.with(|c| c.get()) { None } else { Some(n) }
}

pub struct S<'a>(pub &'a Ty, pub &'a DV);
impl<'a> Serialize for S<'a> {
    fn serialize<Z: Serializer>(&self, s: Z) -> Result<Z::Ok, Z::Error> {
        match (self.0, self.1) {
            (Ty::Unit, DV::Unit) => s.serialize_unit(),
            (Ty::Bool, DV::Bool(b)) => s.serialize_bool(*b),
            (Ty::Int, DV::Int(i)) => s.serialize_i64(*i),
            (Ty::Str, DV::Str(x)) => s.serialize_str(x),
            (Ty::Opt(_), DV::None) => s.serialize_none(),
            (Ty::Opt(t), DV::Some(v)) => s.serialize_some(&S(t, v)),
            (Ty::Seq(t), DV::Seq(v)) => {
                let mut q = s.serialize_seq(len_hint(v.len()))?;
                for x in v {
                    q.serialize_element(&S(t, x))?;
                }
                q.end()
            }
            (Ty::Tuple(ts), DV::Seq(v)) => {
                let mut q = s.serialize_tuple(v.len())?;
                for (t, x) in ts.iter().zip(v) {
                    q.serialize_element(&S(t, x))?;
                }
                q.end()
            }
            (Ty::TS(ts), DV::Seq(v)) => {
                let mut q = s.serialize_tuple_struct("Ts", v.len())?;
                for (t, x) in ts.iter().zip(v) {
                    q.serialize_field(&S(t, x))?;
                }
                q.end()
            }
            (Ty::NT(t), DV::NT(v)) => s.serialize_newtype_struct("Nt", &S(t, v)),
            (Ty::Map(kt, vt), DV::Map(es)) => {
                let mut m = s.serialize_map(len_hint(es.len()))?;
                for (k, v) in es {
                    m.serialize_entry(&S(kt, k), &S(vt, v))?;
                }
                m.end()
            }
            (Ty::Struct(ts, _), DV::Struct(vs)) => {
                let mut m = s.serialize_struct("St", vs.len())?;
                for (i, (t, v)) in ts.iter().zip(vs).enumerate() {
                    m.serialize_field(FIELDS[i], &S(t, v))?;
                }
                m.end()
            }
            (Ty::Enum(vks), DV::Var(i, vs)) => match &vks[*i] {
                VK::Unit => s.serialize_unit_variant("En", *i as u32, VARS[*i]),
                VK::New(t) => s.serialize_newtype_variant("En", *i as u32, VARS[*i], &S(t, &vs[0])),
                VK::Tup(ts) => {
                    let mut q = s.serialize_tuple_variant("En", *i as u32, VARS[*i], vs.len())?;
                    for (t, x) in ts.iter().zip(vs) {
                        q.serialize_field(&S(t, x))?;
                    }
                    q.end()
                }
                VK::St(ts) => {
                    let mut q = s.serialize_struct_variant("En", *i as u32, VARS[*i], vs.len())?;
                    for (j, (t, x)) in ts.iter().zip(vs).enumerate() {
                        q.serialize_field(FIELDS[j], &S(t, x))?;
                    }
                    q.end()
                }
            },
            (t, v) => Err(ser::Error::custom(format!("ty/value mismatch {:?} {:?}", t, v))),
        }
    }
}

// ------------------------------------------------------------------------------------------
// DeserializeSeed

pub struct D<'a>(pub &'a Ty);
struct TupV<'a>(&'a [Ty]);
impl<'de, 'a> Visitor<'de> for TupV<'a> {
    type Value = Vec<DV>;
    fn expecting(&self, f: &mut std::fmt::Formatter) -> std::fmt::Result {
        write!(f, "a tuple of size {}", self.0.len())
    }
    fn visit_seq<A: SeqAccess<'de>>(self, mut a: A) -> Result<Vec<DV>, A::Error> {
        let mut v = vec![];
        for (i, t) in self.0.iter().enumerate() {
            match a.next_element_seed(D(t))? {
                Some(x) => v.push(x),
                None => return Err(de::Error::invalid_length(i, &self)),
            }
        }
        Ok(v)
    }
}
struct StV<'a>(&'a [Ty], bool);
struct FieldSeed(usize, bool);
impl<'de> DeserializeSeed<'de> for FieldSeed {
    type Value = Option<usize>;
    fn deserialize<Dz: Deserializer<'de>>(self, d: Dz) -> Result<Option<usize>, Dz::Error> {
        struct FV(usize, bool);
        impl<'de> Visitor<'de> for FV {
            type Value = Option<usize>;
            fn expecting(&self, f: &mut std::fmt::Formatter) -> std::fmt::Result {
                f.write_str("field identifier")
            }
            fn visit_str<E: de::Error>(self, s: &str) -> Result<Option<usize>, E> {
                match FIELDS[..self.0].iter().position(|f| *f == s) {
                    Some(i) => Ok(Some(i)),
                    None if self.1 => Err(de::Error::unknown_field(s, &FIELDS[..self.0])),
                    None => Ok(None),
                }
            }
        }
        d.deserialize_identifier(FV(self.0, self.1))
    }
}
impl<'de, 'a> Visitor<'de> for StV<'a> {
    type Value = Vec<DV>;
    fn expecting(&self, f: &mut std::fmt::Formatter) -> std::fmt::Result {
        f.write_str("struct St")
    }
    fn visit_map<A: MapAccess<'de>>(self, mut a: A) -> Result<Vec<DV>, A::Error> {
        let n = self.0.len();
        let mut vals: Vec<Option<DV>> = vec![None; n];
        while let Some(k) = a.next_key_seed(FieldSeed(n, self.1))? {
            match k {
                Some(i) => {
                    if vals[i].is_some() {
                        return Err(de::Error::duplicate_field(FIELDS[i]));
                    }
                    vals[i] = Some(a.next_value_seed(D(&self.0[i]))?);
                }
                None => {
                    let _: IgnoredAny = a.next_value()?;
                }
            }
        }
        let mut out = vec![];
        for (i, v) in vals.into_iter().enumerate() {
            match v {
                Some(x) => out.push(x),
                None => {
                    if matches!(self.0[i], Ty::Opt(_)) {
                        out.push(DV::None)
                    } else {
                        return Err(de::Error::missing_field(FIELDS[i]));
                    }
                }
            }
        }
        Ok(out)
    }
    // derive also accepts a sequence for a struct
    fn visit_seq<A: SeqAccess<'de>>(self, mut a: A) -> Result<Vec<DV>, A::Error> {
        let mut v = vec![];
        for (i, t) in self.0.iter().enumerate() {
            match a.next_element_seed(D(t))? {
                Some(x) => v.push(x),
                None => return Err(de::Error::invalid_length(i, &self)),
            }
        }
        Ok(v)
    }
}
struct VarSeed(usize);
impl<'de> DeserializeSeed<'de> for VarSeed {
    type Value = usize;
    fn deserialize<Dz: Deserializer<'de>>(self, d: Dz) -> Result<usize, Dz::Error> {
        struct VV(usize);
        impl<'de> Visitor<'de> for VV {
            type Value = usize;
            fn expecting(&self, f: &mut std::fmt::Formatter) -> std::fmt::Result {
                f.write_str("variant identifier")
            }
            fn visit_str<E: de::Error>(self, s: &str) -> Result<usize, E> {
                VARS[..self.0].iter().position(|f| *f == s).ok_or_else(|| de::Error::unknown_variant(s, &VARS[..self.0]))
            }
        }
        d.deserialize_identifier(VV(self.0))
    }
}
struct V<'a>(&'a Ty);
impl<'de, 'a> Visitor<'de> for V<'a> {
    type Value = DV;
    fn expecting(&self, f: &mut std::fmt::Formatter) -> std::fmt::Result {
        write!(f, "{:?}", self.0)
    }
    fn visit_unit<E>(self) -> Result<DV, E> {
        Ok(DV::Unit)
    }
    fn visit_bool<E>(self, b: bool) -> Result<DV, E> {
        Ok(DV::Bool(b))
    }
    fn visit_i64<E>(self, v: i64) -> Result<DV, E> {
        Ok(DV::Int(v))
    }
    fn visit_u64<E: de::Error>(self, v: u64) -> Result<DV, E> {
        i64::try_from(v).map(DV::Int).map_err(|_| de::Error::custom("integer out of range"))
    }
    fn visit_str<E>(self, v: &str) -> Result<DV, E> {
        Ok(DV::Str(v.to_string()))
    }
    fn visit_none<E>(self) -> Result<DV, E> {
        Ok(DV::None)
    }
    fn visit_some<Dz: Deserializer<'de>>(self, d: Dz) -> Result<DV, Dz::Error> {
        if let Ty::Opt(t) = self.0 {
            Ok(DV::Some(Box::new(D(t).deserialize(d)?)))
        } else {
            Err(de::Error::custom("visit_some on a non-option"))
        }
    }
    fn visit_newtype_struct<Dz: Deserializer<'de>>(self, d: Dz) -> Result<DV, Dz::Error> {
        if let Ty::NT(t) = self.0 {
            Ok(DV::NT(Box::new(D(t).deserialize(d)?)))
        } else {
            Err(de::Error::custom("visit_newtype_struct on a non-newtype"))
        }
    }
    fn visit_seq<A: SeqAccess<'de>>(self, mut a: A) -> Result<DV, A::Error> {
        if let Ty::Seq(t) = self.0 {
            let mut v = vec![];
            while let Some(x) = a.next_element_seed(D(t))? {
                v.push(x);
            }
            Ok(DV::Seq(v))
        } else {
            Err(de::Error::invalid_type(de::Unexpected::Seq, &self))
        }
    }
    fn visit_map<A: MapAccess<'de>>(self, mut a: A) -> Result<DV, A::Error> {
        if let Ty::Map(kt, vt) = self.0 {
            let mut v = vec![];
            while let Some(k) = a.next_key_seed(D(kt))? {
                let x = a.next_value_seed(D(vt))?;
                v.push((k, x));
            }
            Ok(DV::Map(v))
        } else {
            Err(de::Error::invalid_type(de::Unexpected::Map, &self))
        }
    }
    fn visit_enum<A: EnumAccess<'de>>(self, a: A) -> Result<DV, A::Error> {
        if let Ty::Enum(vks) = self.0 {
            let (i, va) = a.variant_seed(VarSeed(vks.len()))?;
            match &vks[i] {
                VK::Unit => {
                    va.unit_variant()?;
                    Ok(DV::Var(i, vec![]))
                }
                VK::New(t) => Ok(DV::Var(i, vec![va.newtype_variant_seed(D(t))?])),
                VK::Tup(ts) => Ok(DV::Var(i, va.tuple_variant(ts.len(), TupV(ts))?)),
                VK::St(ts) => Ok(DV::Var(i, va.struct_variant(&FIELDS[..ts.len()], StV(ts, false))?)),
            }
        } else {
            Err(de::Error::custom("visit_enum on a non-enum"))
        }
    }
}
impl<'de, 'a> DeserializeSeed<'de> for D<'a> {
    type Value = DV;
    fn deserialize<Dz: Deserializer<'de>>(self, d: Dz) -> Result<DV, Dz::Error> {
        match self.0 {
            Ty::Unit => d.deserialize_unit(V(self.0)),
            Ty::Bool => d.deserialize_bool(V(self.0)),
            Ty::Int => d.deserialize_i64(V(self.0)),
            Ty::Str => d.deserialize_string(V(self.0)),
            Ty::Opt(_) => d.deserialize_option(V(self.0)),
            Ty::Seq(_) => d.deserialize_seq(V(self.0)),
            Ty::Map(..) => d.deserialize_map(V(self.0)),
            Ty::NT(_) => d.deserialize_newtype_struct("Nt", V(self.0)),
            Ty::Tuple(ts) => d.deserialize_tuple(ts.len(), TupV(ts)).map(DV::Seq),
            Ty::TS(ts) => d.deserialize_tuple_struct("Ts", ts.len(), TupV(ts)).map(DV::Seq),
            Ty::Struct(ts, deny) => d.deserialize_struct("St", &FIELDS[..ts.len()], StV(ts, *deny)).map(DV::Struct),
            Ty::Enum(vks) => d.deserialize_enum("En", &VARS[..vks.len()], V(self.0)),
        }
    }
}

// ------------------------------------------------------------------------------------------
// helpers and strategies

/// a type whose values include a null-like encoding (so `Option<T>` of it is ambiguous)
pub fn nullable(t: &Ty) -> bool {
    match t {
        Ty::Unit | Ty::Opt(_) => true,
        Ty::NT(x) => nullable(x),
        // a unit variant / unit-like things are fine; empty collections with empty_as_braces=false
        // are handled by the callers
        _ => false,
    }
}

pub fn size(v: &DV) -> usize {
    match v {
        DV::Seq(x) | DV::Struct(x) | DV::Var(_, x) => 1 + x.iter().map(size).sum::<usize>(),
        DV::Map(e) => 1 + e.iter().map(|(k, v)| size(k) + size(v)).sum::<usize>(),
        DV::Some(x) | DV::NT(x) => 1 + size(x),
        _ => 1,
    }
}
pub fn depth(v: &DV) -> usize {
    match v {
        DV::Seq(x) | DV::Struct(x) | DV::Var(_, x) => 1 + x.iter().map(depth).max().unwrap_or(0),
        DV::Map(e) => 1 + e.iter().map(|(k, v)| depth(k).max(depth(v))).max().unwrap_or(0),
        DV::Some(x) | DV::NT(x) => depth(x),
        _ => 0,
    }
}
pub fn has_empty_collection(t: &Ty, v: &DV) -> bool {
    match (t, v) {
        (Ty::Seq(_), DV::Seq(x)) if x.is_empty() => true,
        (Ty::Map(..), DV::Map(x)) if x.is_empty() => true,
        (Ty::Struct(ts, _), DV::Struct(_)) if ts.is_empty() => true,
        (Ty::Enum(vks), DV::Var(i, _)) if matches!(&vks[*i], VK::St(f) if f.is_empty()) => true,
        (Ty::Seq(t), DV::Seq(x)) => x.iter().any(|y| has_empty_collection(t, y)),
        (Ty::Tuple(ts), DV::Seq(x)) | (Ty::TS(ts), DV::Seq(x)) => ts.iter().zip(x).any(|(t, y)| has_empty_collection(t, y)),
        (Ty::Map(kt, vt), DV::Map(es)) => es.iter().any(|(k, y)| has_empty_collection(kt, k) || has_empty_collection(vt, y)),
        (Ty::Struct(ts, _), DV::Struct(x)) => ts.iter().zip(x).any(|(t, y)| has_empty_collection(t, y)),
        (Ty::Enum(vks), DV::Var(i, x)) => match &vks[*i] {
            VK::Unit => false,
            VK::New(t) => has_empty_collection(t, &x[0]),
            VK::Tup(ts) | VK::St(ts) => ts.iter().zip(x).any(|(t, y)| has_empty_collection(t, y)),
        },
        (Ty::Opt(t), DV::Some(y)) | (Ty::NT(t), DV::NT(y)) => has_empty_collection(t, y),
        _ => false,
    }
}

/// visit every (type, value) pair with its parent position label
pub fn walk<'a>(t: &'a Ty, v: &'a DV, pos: &'static str, f: &mut dyn FnMut(&'a Ty, &'a DV, &'static str)) {
    f(t, v, pos);
    match (t, v) {
        (Ty::Seq(t), DV::Seq(x)) => x.iter().for_each(|y| walk(t, y, "seq-item", f)),
        (Ty::Tuple(ts), DV::Seq(x)) => ts.iter().zip(x).for_each(|(t, y)| walk(t, y, "tuple-item", f)),
        (Ty::TS(ts), DV::Seq(x)) => ts.iter().zip(x).for_each(|(t, y)| walk(t, y, "tuple-struct-item", f)),
        (Ty::Map(kt, vt), DV::Map(es)) => es.iter().for_each(|(k, y)| {
            walk(kt, k, "map-key", f);
            walk(vt, y, "map-value", f)
        }),
        (Ty::Struct(ts, _), DV::Struct(x)) => ts.iter().zip(x).for_each(|(t, y)| walk(t, y, "struct-field", f)),
        (Ty::Enum(vks), DV::Var(i, x)) => match &vks[*i] {
            VK::Unit => {}
            VK::New(t) => walk(t, &x[0], "newtype-variant", f),
            VK::Tup(ts) => ts.iter().zip(x).for_each(|(t, y)| walk(t, y, "tuple-variant-item", f)),
            VK::St(ts) => ts.iter().zip(x).for_each(|(t, y)| walk(t, y, "struct-variant-field", f)),
        },
        (Ty::Opt(t), DV::Some(y)) => walk(t, y, "some", f),
        (Ty::NT(t), DV::NT(y)) => walk(t, y, "newtype", f),
        _ => {}
    }
}

pub fn kind_name(t: &Ty, v: &DV) -> &'static str {
    match (t, v) {
        (Ty::Unit, _) => "unit",
        (Ty::Bool, _) => "bool",
        (Ty::Int, _) => "int",
        (Ty::Str, DV::Str(s)) => {
            if s.contains('\n') {
                "str-multiline"
            } else {
                "str"
            }
        }
        (Ty::Opt(_), DV::None) => "none",
        (Ty::Opt(_), _) => "some",
        (Ty::Seq(_), DV::Seq(x)) => {
            if x.is_empty() {
                "seq-empty"
            } else {
                "seq"
            }
        }
        (Ty::Tuple(_), _) => "tuple",
        (Ty::TS(_), _) => "tuple-struct",
        (Ty::NT(_), _) => "newtype",
        (Ty::Map(..), DV::Map(x)) => {
            if x.is_empty() {
                "map-empty"
            } else {
                "map"
            }
        }
        (Ty::Struct(..), _) => "struct",
        (Ty::Enum(vks), DV::Var(i, _)) => match &vks[*i] {
            VK::Unit => "unit-variant",
            VK::New(_) => "newtype-variant",
            VK::Tup(_) => "tuple-variant",
            VK::St(_) => "struct-variant",
        },
        _ => "?",
    }
}

pub fn arb_ty(depth: u32) -> impl Strategy<Value = Ty> + Clone + use<> {
    let leaf = prop_oneof![Just(Ty::Unit), Just(Ty::Bool), Just(Ty::Int), Just(Ty::Str)];
    leaf.prop_recursive(depth, 12, 3, |inner| {
        prop_oneof![
            inner.clone().prop_filter("no nested nullable", |t| !nullable(t)).prop_map(|t| Ty::Opt(Box::new(t))),
            inner.clone().prop_map(|t| Ty::Seq(Box::new(t))),
            prop::collection::vec(inner.clone(), 1..3).prop_map(Ty::Tuple),
            prop::collection::vec(inner.clone(), 1..3).prop_map(Ty::TS),
            (prop_oneof![3 => Just(Ty::Str), 1 => Just(Ty::Int), 1 => Just(Ty::Bool), 1 => inner.clone()], inner.clone()).prop_map(|(k, v)| Ty::Map(Box::new(k), Box::new(v))),
            (prop::collection::vec(inner.clone(), 0..4), any::<bool>()).prop_map(|(f, d)| Ty::Struct(f, d)),
            inner.clone().prop_map(|t| Ty::NT(Box::new(t))),
            prop::collection::vec(
                prop_oneof![
                    Just(VK::Unit),
                    inner.clone().prop_map(|t| VK::New(Box::new(t))),
                    prop::collection::vec(inner.clone(), 1..3).prop_map(VK::Tup),
                    prop::collection::vec(inner.clone(), 0..3).prop_map(VK::St)
                ],
                1..4
            )
            .prop_map(Ty::Enum),
        ]
    })
}

// (the last two: multi-line text whose first line starts with a blank - a block scalar needs an
// indentation indicator for it - short and longer than the default folding width)
pub const STR_POOL: [&str; 14] = [
    "ab", "", "x y", "1", "true", "a\nb", "- k", "k: v", "null", "line\n", "q", "two\nlines\n", " lead\nsecond\n",
    " word word word word word word word word word word word word word word word word word w\nnext line\n",
];

/// Key nodes are compared by structure, scalar text and tag - not by style: `null`, `~`, an
/// empty scalar and the strings "null" / "~" / "" are one key, at any depth of a composite key.
/// Two keys with the same normal form must not be generated into one mapping.
pub fn norm_key(k: &DV) -> DV {
    let n = norm_key;
    match k {
        DV::None | DV::Unit => DV::Str("null".into()),
        DV::Str(s) if s.is_empty() || s == "~" || s.eq_ignore_ascii_case("null") => DV::Str("null".into()),
        DV::Some(x) | DV::NT(x) => n(x),
        DV::Seq(x) => DV::Seq(x.iter().map(n).collect()),
        DV::Struct(x) => DV::Struct(x.iter().map(n).collect()),
        DV::Map(es) => DV::Map(es.iter().map(|(a, b)| (n(a), n(b))).collect()),
        DV::Var(i, x) => DV::Var(*i, x.iter().map(n).collect()),
        other => other.clone(),
    }
}

/// does some mapping of the value hold two keys that are one key node for the reader?
pub fn has_colliding_keys(v: &DV) -> bool {
    match v {
        DV::Map(es) => {
            let ks: Vec<DV> = es.iter().map(|(k, _)| norm_key(k)).collect();
            ks.iter().enumerate().any(|(i, k)| ks[..i].contains(k)) || es.iter().any(|(k, x)| has_colliding_keys(k) || has_colliding_keys(x))
        }
        DV::Some(x) | DV::NT(x) => has_colliding_keys(x),
        DV::Seq(x) | DV::Struct(x) | DV::Var(_, x) => x.iter().any(has_colliding_keys),
        _ => false,
    }
}

pub fn arb_val(t: &Ty) -> BoxedStrategy<DV> {
    match t {
        Ty::Unit => Just(DV::Unit).boxed(),
        Ty::Bool => any::<bool>().prop_map(DV::Bool).boxed(),
        Ty::Int => (-3i64..100).prop_map(DV::Int).boxed(),
        Ty::Str => prop::sample::select(STR_POOL.to_vec()).prop_map(|s| DV::Str(s.to_string())).boxed(),
        Ty::Opt(t) => prop_oneof![Just(DV::None), arb_val(t).prop_map(|v| DV::Some(Box::new(v)))].boxed(),
        Ty::Seq(t) => prop::collection::vec(arb_val(t), 0..3).prop_map(DV::Seq).boxed(),
        Ty::Tuple(ts) | Ty::TS(ts) => ts.iter().map(arb_val).collect::<Vec<_>>().prop_map(DV::Seq).boxed(),
        Ty::NT(t) => arb_val(t).prop_map(|v| DV::NT(Box::new(v))).boxed(),
        Ty::Map(k, v) => prop::collection::vec((arb_val(k), arb_val(v)), 0..3)
            .prop_map(|es| {
                // keys must be distinct as YAML key nodes: the reader compares scalar keys by text
                // (style ignored), so None / () and the strings "null", "~", "" collide
                use norm_key as norm;
                let mut out: Vec<(DV, DV)> = vec![];
                for (k, v) in es {
                    if !out.iter().any(|(k2, _)| norm(k2) == norm(&k)) {
                        out.push((k, v));
                    }
                }
                DV::Map(out)
            })
            .boxed(),
        Ty::Struct(ts, _) => ts.iter().map(arb_val).collect::<Vec<_>>().prop_map(DV::Struct).boxed(),
        Ty::Enum(vks) => {
            let opts: Vec<BoxedStrategy<DV>> = vks
                .iter()
                .enumerate()
                .map(|(i, vk)| match vk {
                    VK::Unit => Just(DV::Var(i, vec![])).boxed(),
                    VK::New(t) => arb_val(t).prop_map(move |v| DV::Var(i, vec![v])).boxed(),
                    VK::Tup(ts) | VK::St(ts) => ts.iter().map(arb_val).collect::<Vec<_>>().prop_map(move |v| DV::Var(i, v)).boxed(),
                })
                .collect();
            proptest::strategy::Union::new(opts).boxed()
        }
    }
}

/// (Ty, DV) pairs
pub fn arb_typed(depth: u32) -> impl Strategy<Value = (Ty, DV)> + Clone + use<> {
    arb_ty(depth).prop_flat_map(|t| {
        let v = arb_val(&t);
        (Just(t), v)
    })
}

/// Exhaustive family: every tree of depth <= `d` with <= 2 children per node over the shape
/// constructors and 9 leaf kinds. Returned as (Ty, DV) pairs.
pub fn small_trees(d: usize) -> Vec<(Ty, DV)> {
    let s = |x: &str| (Ty::Str, DV::Str(x.to_string()));
    let leaves: Vec<(Ty, DV)> = vec![
        (Ty::Int, DV::Int(7)),
        (Ty::Bool, DV::Bool(true)),
        s("ab"),
        s(""),
        s("a\nb\n"),
        (Ty::Seq(Box::new(Ty::Int)), DV::Seq(vec![])),
        (Ty::Map(Box::new(Ty::Str), Box::new(Ty::Int)), DV::Map(vec![])),
        (Ty::Enum(vec![VK::Unit]), DV::Var(0, vec![])),
        (Ty::Opt(Box::new(Ty::Int)), DV::None),
    ];
    let mut level: Vec<(Ty, DV)> = leaves.clone();
    let mut all = leaves.clone();
    for _ in 0..d {
        let mut next: Vec<(Ty, DV)> = vec![];
        // children are taken from `level` (previous depth) – one or two of them
        let pairs: Vec<(&(Ty, DV), Option<&(Ty, DV)>)> = {
            let mut v = vec![];
            for a in &level {
                v.push((a, None));
            }
            // two children: pair each with a small fixed set of partners to keep the count manageable
            for (i, a) in level.iter().enumerate() {
                for b in level.iter().skip(i % 3).step_by((level.len() / 6).max(1)).take(6) {
                    v.push((a, Some(b)));
                }
            }
            v
        };
        for (a, b) in pairs {
            let (ta, va) = a;
            match b {
                None => {
                    next.push((Ty::Seq(Box::new(ta.clone())), DV::Seq(vec![va.clone()])));
                    next.push((Ty::Map(Box::new(Ty::Str), Box::new(ta.clone())), DV::Map(vec![(DV::Str("k".into()), va.clone())])));
                    next.push((Ty::Struct(vec![ta.clone()], false), DV::Struct(vec![va.clone()])));
                    next.push((Ty::Enum(vec![VK::New(Box::new(ta.clone()))]), DV::Var(0, vec![va.clone()])));
                    next.push((Ty::Enum(vec![VK::Unit, VK::St(vec![ta.clone()])]), DV::Var(1, vec![va.clone()])));
                    next.push((Ty::Enum(vec![VK::Tup(vec![ta.clone()])]), DV::Var(0, vec![va.clone()])));
                    next.push((Ty::NT(Box::new(ta.clone())), DV::NT(Box::new(va.clone()))));
                    next.push((Ty::TS(vec![ta.clone()]), DV::Seq(vec![va.clone()])));
                    if !nullable(ta) {
                        next.push((Ty::Opt(Box::new(ta.clone())), DV::Some(Box::new(va.clone()))));
                    }
                    // as a map key
                    next.push((Ty::Map(Box::new(ta.clone()), Box::new(Ty::Int)), DV::Map(vec![(va.clone(), DV::Int(1))])));
                }
                Some((tb, vb)) => {
                    if ta == tb {
                        next.push((Ty::Seq(Box::new(ta.clone())), DV::Seq(vec![va.clone(), vb.clone()])));
                        if va != vb {
                            next.push((Ty::Map(Box::new(Ty::Str), Box::new(ta.clone())), DV::Map(vec![(DV::Str("k".into()), va.clone()), (DV::Str("l".into()), vb.clone())])));
                        }
                    }
                    next.push((Ty::Tuple(vec![ta.clone(), tb.clone()]), DV::Seq(vec![va.clone(), vb.clone()])));
                    next.push((Ty::Struct(vec![ta.clone(), tb.clone()], false), DV::Struct(vec![va.clone(), vb.clone()])));
                    next.push((Ty::Enum(vec![VK::Tup(vec![ta.clone(), tb.clone()])]), DV::Var(0, vec![va.clone(), vb.clone()])));
                    next.push((Ty::Enum(vec![VK::St(vec![ta.clone(), tb.clone()])]), DV::Var(0, vec![va.clone(), vb.clone()])));
                    next.push((Ty::TS(vec![ta.clone(), tb.clone()]), DV::Seq(vec![va.clone(), vb.clone()])));
                }
            }
        }
        all.extend(next.iter().cloned());
        level = next;
    }
    all
}

// ------------------------------------------------------------------------------------------
// signatures of known findings shared by C13 and C20 (predicates over the case)

fn unwrap_transparent<'a>(t: &'a Ty, v: &'a DV) -> (&'a Ty, &'a DV) {
    match (t, v) {
        (Ty::Opt(t), DV::Some(v)) | (Ty::NT(t), DV::NT(v)) => unwrap_transparent(t, v),
        _ => (t, v),
    }
}
fn is_composite(t: &Ty, v: &DV) -> bool {
    // the emitter writes every key that is not a bare scalar with the explicit `? ` form,
    // including `Some(scalar)` and newtype-struct keys
    if matches!(t, Ty::Opt(_) | Ty::NT(_)) && !matches!(v, DV::None) {
        return true;
    }
    let (t, v) = unwrap_transparent(t, v);
    match (t, v) {
        (Ty::Seq(_), _) | (Ty::Tuple(_), _) | (Ty::TS(_), _) | (Ty::Map(..), _) | (Ty::Struct(..), _) => true,
        (Ty::Enum(vks), DV::Var(i, _)) => !matches!(vks[*i], VK::Unit),
        _ => false,
    }
}
fn nullish_scalar(t: &Ty, v: &DV) -> bool {
    let (t, v) = unwrap_transparent(t, v);
    match (t, v) {
        (Ty::Unit, _) | (_, DV::None) => true,
        (Ty::Str, DV::Str(s)) => s.is_empty() || s == "~" || s.eq_ignore_ascii_case("null"),
        _ => false,
    }
}
/// a composite map key that contains a struct variant or a multi-line string (emitter: the body
/// of a `? ` key is not indented relative to the key indicator). (The value side - a collection,
/// payload variant or multi-line string as the value of a composite key - used to be part of
/// this signature; it was repaired by fix 1194319 and is judged again.)
pub fn sig_complex_key_block_body(t: &Ty, v: &DV) -> bool {
    let mut hit = false;
    walk(t, v, "root", &mut |kt, kv, pos| {
        if pos == "map-key" && is_composite(kt, kv) {
            walk(kt, kv, "root", &mut |t2, v2, _| {
                if let (Ty::Enum(vks), DV::Var(i, _)) = (t2, v2) {
                    // struct variants, and newtype variants (whose payload may be a block mapping)
                    if matches!(vks[*i], VK::St(_) | VK::New(_)) {
                        hit = true;
                    }
                }
                if matches!(v2, DV::Str(s) if s.contains('\n')) {
                    hit = true;
                }
            });
        }
    });
    hit
}
/// a map key that is an empty mapping, or a one-entry mapping whose own key is null-like
/// (reader: mistaken for the "explicit empty key" special case)
pub fn sig_complex_key_empty_key_hack(t: &Ty, v: &DV) -> bool {
    let mut hit = false;
    walk(t, v, "root", &mut |kt, kv, pos| {
        if pos == "map-key" {
            let (t2, v2) = unwrap_transparent(kt, kv);
            match (t2, v2) {
                (Ty::Map(kk, _), DV::Map(es)) => {
                    if es.is_empty() || (es.len() == 1 && nullish_scalar(kk, &es[0].0)) {
                        hit = true;
                    }
                }
                (Ty::Struct(ts, _), _) if ts.is_empty() => hit = true,
                (Ty::Enum(vks), DV::Var(i, _)) => {
                    if matches!(&vks[*i], VK::St(f) if f.is_empty()) {
                        hit = true;
                    }
                }
                _ => {}
            }
        }
    });
    hit
}

/// any composite (non-scalar) map key
pub fn sig_has_composite_key(t: &Ty, v: &DV) -> bool {
    let mut hit = false;
    walk(t, v, "root", &mut |kt, kv, pos| {
        if pos == "map-key" && is_composite(kt, kv) {
            hit = true;
        }
    });
    hit
}

/// does the subtree contain an enum variant that carries a payload?
pub fn contains_payload_variant(t: &Ty, v: &DV) -> bool {
    let mut hit = false;
    walk(t, v, "root", &mut |t2, v2, _| {
        if let (Ty::Enum(vks), DV::Var(i, _)) = (t2, v2) {
            if !matches!(vks[*i], VK::Unit) {
                hit = true;
            }
        }
    });
    hit
}
/// the (type, value) at pre-order index `at`
pub fn node_at<'a>(t: &'a Ty, v: &'a DV, at: usize) -> Option<(&'a Ty, &'a DV)> {
    let mut idx = 0;
    let mut out = None;
    walk(t, v, "root", &mut |t2, v2, _| {
        if idx == at {
            out = Some((t2, v2));
        }
        idx += 1;
    });
    out
}

// ---------------------------------------------------------------------------------------------
// `Dyn`: the run-time type description behind a plain `Deserialize` impl, so that entry points
// taking `T: DeserializeOwned` (from_str, from_slice, from_reader, from_multiple ...) can be
// driven with generated types. The description is taken from a thread-local set by `with_ty`.
thread_local! {
    static DYN_TY: std::cell::RefCell<Option<Ty>> = const { std::cell::RefCell::new(None) };
}

#[derive(Debug, Clone, PartialEq)]
pub struct Dyn(pub DV);

/// run `f` with `ty` installed as the type `Dyn` deserializes as
pub fn with_ty<R>(ty: &Ty, f: impl FnOnce() -> R) -> R {
    DYN_TY.with(|c| *c.borrow_mut() = Some(ty.clone()));
    let r = f();
    DYN_TY.with(|c| *c.borrow_mut() = None);
    r
}

impl<'de> serde::Deserialize<'de> for Dyn {
    fn deserialize<Dz: Deserializer<'de>>(d: Dz) -> Result<Dyn, Dz::Error> {
        let ty = DYN_TY.with(|c| c.borrow().clone()).expect("Dyn used outside with_ty");
        D(&ty).deserialize(d).map(Dyn)
    }
}


// ---------------------------------------------------------------------------------------------
// byte-driven construction (libFuzzer targets): the families of `arb_ty` / `arb_val`, decoded
// from an `engine::Bytes` cursor. Total and bounded.
use crate::engine::Bytes;

pub fn ty_from_bytes(b: &mut Bytes, depth: u32) -> Ty {
    let leaf = |b: &mut Bytes| match b.below(4) {
        0 => Ty::Unit,
        1 => Ty::Bool,
        2 => Ty::Int,
        _ => Ty::Str,
    };
    if depth == 0 || b.is_empty() {
        return leaf(b);
    }
    let d = depth - 1;
    match b.below(11) {
        0..=2 => leaf(b),
        3 => {
            let t = ty_from_bytes(b, d);
            if nullable(&t) { Ty::Opt(Box::new(Ty::Int)) } else { Ty::Opt(Box::new(t)) }
        }
        4 => Ty::Seq(Box::new(ty_from_bytes(b, d))),
        5 => {
            let n = 1 + b.below(2);
            Ty::Tuple((0..n).map(|_| ty_from_bytes(b, d)).collect())
        }
        6 => {
            let n = 1 + b.below(2);
            Ty::TS((0..n).map(|_| ty_from_bytes(b, d)).collect())
        }
        7 => {
            let k = match b.below(6) {
                0..=2 => Ty::Str,
                3 => Ty::Int,
                4 => Ty::Bool,
                _ => ty_from_bytes(b, d),
            };
            Ty::Map(Box::new(k), Box::new(ty_from_bytes(b, d)))
        }
        8 => {
            let n = b.below(4);
            let f = (0..n).map(|_| ty_from_bytes(b, d)).collect();
            Ty::Struct(f, b.bool())
        }
        9 => Ty::NT(Box::new(ty_from_bytes(b, d))),
        _ => {
            let n = 1 + b.below(3);
            Ty::Enum(
                (0..n)
                    .map(|_| match b.below(4) {
                        0 => VK::Unit,
                        1 => VK::New(Box::new(ty_from_bytes(b, d))),
                        2 => {
                            let m = 1 + b.below(2);
                            VK::Tup((0..m).map(|_| ty_from_bytes(b, d)).collect())
                        }
                        _ => {
                            let m = b.below(3);
                            VK::St((0..m).map(|_| ty_from_bytes(b, d)).collect())
                        }
                    })
                    .collect(),
            )
        }
    }
}

/// a value of type `t`; strings from `pool`, integers from `lo..hi`
pub fn val_from_bytes_with(b: &mut Bytes, t: &Ty, pool: &[&str], lo: i64, hi: i64) -> DV {
    let go = |b: &mut Bytes, t: &Ty| val_from_bytes_with(b, t, pool, lo, hi);
    match t {
        Ty::Unit => DV::Unit,
        Ty::Bool => DV::Bool(b.bool()),
        Ty::Int => DV::Int(lo + b.below((hi - lo) as usize) as i64),
        Ty::Str => DV::Str(b.pick(pool).to_string()),
        Ty::Opt(t) => {
            if b.bool() { DV::Some(Box::new(go(b, t))) } else { DV::None }
        }
        Ty::Seq(t) => {
            let n = b.below(3);
            DV::Seq((0..n).map(|_| go(b, t)).collect())
        }
        Ty::Tuple(ts) | Ty::TS(ts) => DV::Seq(ts.iter().map(|t| go(b, t)).collect()),
        Ty::NT(t) => DV::NT(Box::new(go(b, t))),
        Ty::Map(k, v) => {
            use norm_key as norm;
            let n = b.below(3);
            let mut out: Vec<(DV, DV)> = vec![];
            for _ in 0..n {
                let (kk, vv) = (go(b, k), go(b, v));
                if !out.iter().any(|(k2, _)| norm(k2) == norm(&kk)) {
                    out.push((kk, vv));
                }
            }
            DV::Map(out)
        }
        Ty::Struct(ts, _) => DV::Struct(ts.iter().map(|t| go(b, t)).collect()),
        Ty::Enum(vks) => {
            let i = b.below(vks.len());
            match &vks[i] {
                VK::Unit => DV::Var(i, vec![]),
                VK::New(t) => DV::Var(i, vec![go(b, t)]),
                VK::Tup(ts) | VK::St(ts) => DV::Var(i, ts.iter().map(|t| go(b, t)).collect()),
            }
        }
    }
}

/// the value family of `arb_val`
pub fn val_from_bytes(b: &mut Bytes, t: &Ty) -> DV {
    val_from_bytes_with(b, t, &STR_POOL, -3, 100)
}
