//! G-doc: YAML document AST, renderer with ground-truth positions, event model, raw-parser
//! self-check and the AST-level transformations used as reference semantics
//! (expand_aliases, strip_anchors, resolve_merges, dedup). Nothing here calls serde-saphyr.
use proptest::prelude::*;
use serde::{Deserialize, Serialize};

#[derive(Clone, Copy, Debug, Serialize, Deserialize, PartialEq, Eq, Hash)]
pub enum Style {
    Plain,
    Single,
    Double,
    Literal,
    Folded,
}

#[derive(Clone, Debug, Serialize, Deserialize, PartialEq, Eq, Hash)]
pub enum Kind {
    Scalar { value: String, style: Style },
    Seq { flow: bool, items: Vec<Node> },
    Map { flow: bool, entries: Vec<(Node, Node)> },
    Alias(String),
}

#[derive(Clone, Debug, Serialize, Deserialize, PartialEq, Eq, Hash)]
pub struct Node {
    #[serde(default, skip_serializing_if = "Option::is_none")]
    pub anchor: Option<String>,
    #[serde(default, skip_serializing_if = "Option::is_none")]
    pub tag: Option<String>,
    pub kind: Kind,
}

impl Node {
    pub fn plain(v: &str) -> Node {
        Node { anchor: None, tag: None, kind: Kind::Scalar { value: v.to_string(), style: Style::Plain } }
    }
    pub fn scalar(v: &str, style: Style) -> Node {
        Node { anchor: None, tag: None, kind: Kind::Scalar { value: v.to_string(), style } }
    }
    pub fn seq(flow: bool, items: Vec<Node>) -> Node {
        Node { anchor: None, tag: None, kind: Kind::Seq { flow, items } }
    }
    pub fn map(flow: bool, entries: Vec<(Node, Node)>) -> Node {
        Node { anchor: None, tag: None, kind: Kind::Map { flow, entries } }
    }
    pub fn alias(name: &str) -> Node {
        Node { anchor: None, tag: None, kind: Kind::Alias(name.to_string()) }
    }
    pub fn anchored(mut self, name: &str) -> Node {
        self.anchor = Some(name.to_string());
        self
    }
    pub fn tagged(mut self, tag: &str) -> Node {
        self.tag = Some(tag.to_string());
        self
    }
    pub fn is_merge_key(&self) -> bool {
        self.tag.is_none()
            && matches!(&self.kind, Kind::Scalar { value, style: Style::Plain } if value == "<<")
    }
    pub fn is_collection(&self) -> bool {
        matches!(self.kind, Kind::Seq { .. } | Kind::Map { .. })
    }
    pub fn count(&self) -> usize {
        1 + match &self.kind {
            Kind::Seq { items, .. } => items.iter().map(|n| n.count()).sum(),
            Kind::Map { entries, .. } => entries.iter().map(|(k, v)| k.count() + v.count()).sum(),
            _ => 0,
        }
    }
    pub fn depth(&self) -> usize {
        match &self.kind {
            Kind::Seq { items, .. } => 1 + items.iter().map(|n| n.depth()).max().unwrap_or(0),
            Kind::Map { entries, .. } => {
                1 + entries.iter().map(|(k, v)| k.depth().max(v.depth())).max().unwrap_or(0)
            }
            _ => 0,
        }
    }
    /// pre-order visit (node, is_key)
    pub fn visit<'a>(&'a self, f: &mut dyn FnMut(&'a Node)) {
        f(self);
        match &self.kind {
            Kind::Seq { items, .. } => items.iter().for_each(|n| n.visit(f)),
            Kind::Map { entries, .. } => entries.iter().for_each(|(k, v)| {
                k.visit(f);
                v.visit(f)
            }),
            _ => {}
        }
    }
    pub fn visit_mut(&mut self, f: &mut dyn FnMut(&mut Node)) {
        f(self);
        match &mut self.kind {
            Kind::Seq { items, .. } => items.iter_mut().for_each(|n| n.visit_mut(f)),
            Kind::Map { entries, .. } => entries.iter_mut().for_each(|(k, v)| {
                k.visit_mut(f);
                v.visit_mut(f)
            }),
            _ => {}
        }
    }
    pub fn has_alias(&self) -> bool {
        let mut b = false;
        self.visit(&mut |n| b |= matches!(n.kind, Kind::Alias(_)));
        b
    }
    pub fn has_anchor(&self) -> bool {
        let mut b = false;
        self.visit(&mut |n| b |= n.anchor.is_some());
        b
    }
    pub fn has_merge(&self) -> bool {
        let mut b = false;
        self.visit(&mut |n| {
            if let Kind::Map { entries, .. } = &n.kind {
                b |= entries.iter().any(|(k, _)| k.is_merge_key());
            }
        });
        b
    }
}

// ------------------------------------------------------------------------------------------
// layout + renderer

#[derive(Clone, Debug, Serialize, Deserialize, PartialEq, Eq, Hash)]
pub struct Layout {
    /// spaces per block level (2..=4)
    pub indent: usize,
    /// 0 = LF, 1 = CRLF, 2 = CR
    pub breaks: u8,
    /// render every collection in flow style (overrides the nodes' own flags)
    pub force_flow: bool,
    /// write `---` before the document
    pub doc_start: bool,
    /// write `...` after the document
    pub doc_end: bool,
    /// trailing comments / comment lines
    pub comments: bool,
    /// a first comment line containing multi-byte characters (shifts byte offsets)
    pub mb_prefix: bool,
}
impl Default for Layout {
    fn default() -> Self {
        Layout { indent: 2, breaks: 0, force_flow: false, doc_start: false, doc_end: false, comments: false, mb_prefix: false }
    }
}
impl Layout {
    pub fn from_bits(b: u32) -> Layout {
        Layout {
            indent: [2, 2, 3, 4][(b & 3) as usize],
            breaks: [0, 0, 0, 1, 1, 2, 0, 0][((b >> 2) & 7) as usize],
            force_flow: (b >> 5) & 3 == 0,
            doc_start: (b >> 7) & 1 == 1,
            doc_end: (b >> 8) & 3 == 3,
            comments: (b >> 10) & 1 == 1,
            mb_prefix: (b >> 11) & 1 == 1,
        }
    }
}

#[derive(Clone, Copy, Debug, Default, PartialEq, Eq, Serialize, Deserialize)]
pub struct Pos {
    /// 1-based
    pub line: usize,
    /// 1-based, in characters
    pub col: usize,
    pub char_off: usize,
    pub byte_off: usize,
}

#[derive(Clone, Debug, Default)]
pub struct NodeInfo {
    /// where the node's properties (anchor / tag) or, without them, its content starts
    pub start: Pos,
    /// where the content (scalar text incl. quote, `[`, `{`, `*`, `|`; first child of a block collection) starts
    pub content: Pos,
    /// end of a single-line scalar / alias token (exclusive); None for other nodes
    pub token_end: Option<Pos>,
    /// this node sits in key position
    pub is_key: bool,
}

pub struct Rendered {
    pub text: String,
    /// one entry per node in pre-order
    pub nodes: Vec<NodeInfo>,
}

struct W<'a> {
    out: String,
    line: usize,
    col: usize,
    chars: usize,
    lay: &'a Layout,
    nodes: Vec<NodeInfo>,
    comment_no: usize,
}
impl<'a> W<'a> {
    fn pos(&self) -> Pos {
        Pos { line: self.line, col: self.col, char_off: self.chars, byte_off: self.out.len() }
    }
    fn put(&mut self, s: &str) {
        for ch in s.chars() {
            debug_assert!(ch != '\n' && ch != '\r');
            self.out.push(ch);
            self.col += 1;
            self.chars += 1;
        }
    }
    /// raw text that may contain any character except line breaks being counted
    fn put_raw(&mut self, s: &str) {
        self.put(s)
    }
    fn nl(&mut self) {
        let b = match self.lay.breaks {
            1 => "\r\n",
            2 => "\r",
            _ => "\n",
        };
        self.out.push_str(b);
        self.chars += b.len();
        self.line += 1;
        self.col = 1;
    }
    fn end_line(&mut self) {
        if self.lay.comments {
            self.comment_no += 1;
            if self.comment_no % 3 == 0 {
                self.put(" # c\u{e9}");
            }
        }
        self.nl();
    }
    fn spaces(&mut self, n: usize) {
        for _ in 0..n {
            self.put(" ");
        }
    }
    fn comment_line(&mut self, indent: usize) {
        if self.lay.comments {
            self.comment_no += 1;
            if self.comment_no % 4 == 0 {
                self.spaces(indent);
                self.put("# \u{4e2d} note");
                self.nl();
            }
        }
    }
}

fn plain_ok(v: &str, flow: bool) -> bool {
    if v.is_empty() || v != v.trim() {
        return false;
    }
    let first = v.chars().next().unwrap();
    if "-?:,[]{}#&*!|>'\"%@`".contains(first) {
        // allow "-x" / "?x" / ":x" forms only when followed by a safe char
        if !(matches!(first, '-' | '?' | ':') && v.len() > 1 && !v[1..].starts_with([' ', ',', '[', ']', '{', '}'])) {
            return false;
        }
    }
    if v.contains(": ") || v.contains(" #") || v.ends_with(':') || v.chars().any(|c| c.is_control()) {
        return false;
    }
    if flow && v.contains([',', '[', ']', '{', '}']) {
        return false;
    }
    if v.starts_with("---") || v.starts_with("...") {
        return false;
    }
    true
}

fn double_quoted(v: &str) -> String {
    let mut s = String::from("\"");
    for ch in v.chars() {
        match ch {
            '\\' => s.push_str("\\\\"),
            '"' => s.push_str("\\\""),
            '\n' => s.push_str("\\n"),
            '\t' => s.push_str("\\t"),
            '\r' => s.push_str("\\r"),
            '\0' => s.push_str("\\0"),
            c if (c as u32) < 0x20 || c as u32 == 0x7f => s.push_str(&format!("\\x{:02X}", c as u32)),
            c if (0x80..=0x9f).contains(&(c as u32)) || c == '\u{2028}' || c == '\u{2029}' || c == '\u{feff}' => {
                s.push_str(&format!("\\u{:04X}", c as u32))
            }
            c => s.push(c),
        }
    }
    s.push('"');
    s
}

fn single_ok(v: &str) -> bool {
    !v.chars().any(|c| c.is_control() || c == '\u{2028}' || c == '\u{2029}' || c == '\u{feff}' || c == '\u{85}')
        && v == v.trim()
        || v.is_empty()
}

/// can `v` be written as a literal block scalar by this renderer?
fn literal_ok(v: &str) -> bool {
    let content = v.trim_end_matches('\n');
    !content.is_empty()
        && content.split('\n').all(|l| !l.is_empty() && l == l.trim() && !l.chars().any(|c| c.is_control()))
}
fn folded_ok(v: &str) -> bool {
    let content = v.trim_end_matches('\n');
    !content.is_empty() && !content.contains('\n') && content == content.trim() && !content.chars().any(|c| c.is_control())
}

/// the style the renderer will really use for a scalar in the given context
pub fn effective_style(value: &str, style: Style, inline_only: bool, flow: bool) -> Style {
    match style {
        Style::Plain if plain_ok(value, flow) => Style::Plain,
        Style::Plain => Style::Double,
        Style::Single if single_ok(value) && !value.contains('\n') => Style::Single,
        Style::Single => Style::Double,
        Style::Double => Style::Double,
        Style::Literal if !inline_only && literal_ok(value) => Style::Literal,
        Style::Folded if !inline_only && folded_ok(value) => Style::Folded,
        _ => Style::Double,
    }
}

#[derive(Clone, Copy, PartialEq)]
enum Ctx {
    Root,
    /// cursor right after "- " or "? " (content column = indent + 2)
    Item,
    /// cursor right after "key:" (no space written yet)
    Value,
}

impl<'a> W<'a> {
    fn props(&mut self, n: &Node) -> bool {
        let mut any = false;
        if let Some(a) = &n.anchor {
            self.put("&");
            self.put(a);
            any = true;
        }
        if let Some(t) = &n.tag {
            if any {
                self.put(" ");
            }
            self.put(t);
            any = true;
        }
        any
    }

    fn is_flow(&self, n: &Node, in_flow: bool) -> bool {
        in_flow
            || self.lay.force_flow
            || match &n.kind {
                Kind::Seq { flow, items } => *flow || items.is_empty(),
                Kind::Map { flow, entries } => *flow || entries.is_empty(),
                _ => true,
            }
    }

    /// inline rendering (flow context or inline scalar); registers node infos in pre-order
    fn inline(&mut self, n: &Node, in_flow: bool, is_key: bool) {
        let idx = self.nodes.len();
        self.nodes.push(NodeInfo { is_key, ..Default::default() });
        let start = self.pos();
        let had_props = self.props(n);
        let empty_plain = matches!(&n.kind, Kind::Scalar { value, style: Style::Plain } if value.is_empty());
        if had_props && !empty_plain {
            self.put(" ");
        }
        let content = self.pos();
        let mut token_end = None;
        match &n.kind {
            Kind::Scalar { value, style } => {
                if empty_plain && had_props {
                    // `&a` alone: an empty plain scalar
                } else {
                    match effective_style(value, *style, true, in_flow) {
                        Style::Plain => self.put_raw(value),
                        Style::Single => {
                            let s = format!("'{}'", value.replace('\'', "''"));
                            self.put_raw(&s)
                        }
                        _ => {
                            let s = double_quoted(value);
                            self.put_raw(&s)
                        }
                    }
                }
                token_end = Some(self.pos());
            }
            Kind::Alias(name) => {
                self.put("*");
                self.put(name);
                token_end = Some(self.pos());
            }
            Kind::Seq { items, .. } => {
                self.put("[");
                for (i, it) in items.iter().enumerate() {
                    if i > 0 {
                        self.put(", ");
                    }
                    self.inline(it, true, false);
                }
                self.put("]");
            }
            Kind::Map { entries, .. } => {
                self.put("{");
                for (i, (k, v)) in entries.iter().enumerate() {
                    if i > 0 {
                        self.put(", ");
                    }
                    let simple = matches!(k.kind, Kind::Scalar { .. });
                    if !simple {
                        self.put("? ");
                    }
                    self.inline(k, true, true);
                    if simple {
                        self.put(": ");
                    } else {
                        self.put(" : ");
                    }
                    self.inline(v, true, false);
                }
                self.put("}");
            }
        }
        self.nodes[idx].start = start;
        self.nodes[idx].content = content;
        self.nodes[idx].token_end = token_end;
    }

    fn block(&mut self, n: &Node, indent: usize, ctx: Ctx, is_key: bool) {
        if self.is_flow(n, false) {
            // scalar, alias or flow collection: inline unless a block scalar style applies
            if let Kind::Scalar { value, style } = &n.kind {
                let eff = effective_style(value, *style, false, false);
                if matches!(eff, Style::Literal | Style::Folded) {
                    let idx = self.nodes.len();
                    self.nodes.push(NodeInfo { is_key, ..Default::default() });
                    if ctx == Ctx::Value {
                        self.put(" ");
                    }
                    let start = self.pos();
                    if self.props(n) {
                        self.put(" ");
                    }
                    let content = self.pos();
                    let body = value.trim_end_matches('\n');
                    let trailing = value.len() - body.len();
                    self.put(if eff == Style::Literal { "|" } else { ">" });
                    match trailing {
                        0 => self.put("-"),
                        1 => {}
                        _ => self.put("+"),
                    }
                    self.nl();
                    let body_indent = match ctx {
                        Ctx::Root => self.lay.indent,
                        Ctx::Item => indent + 2,
                        Ctx::Value => indent + self.lay.indent,
                    };
                    for l in body.split('\n') {
                        self.spaces(body_indent);
                        self.put_raw(l);
                        self.nl();
                    }
                    for _ in 1..trailing {
                        self.nl();
                    }
                    self.nodes[idx].start = start;
                    self.nodes[idx].content = content;
                    return;
                }
            }
            if ctx == Ctx::Value {
                self.put(" ");
            }
            self.inline(n, false, is_key);
            self.end_line();
            return;
        }
        // non-empty block collection
        let idx = self.nodes.len();
        self.nodes.push(NodeInfo { is_key, ..Default::default() });
        let has_props = n.anchor.is_some() || n.tag.is_some();
        let mut start = None;
        let child_indent;
        let mut first_inline = false; // first child continues on the current line (compact form)
        match ctx {
            Ctx::Root => {
                if has_props {
                    start = Some(self.pos());
                    self.props(n);
                    self.end_line();
                }
                child_indent = 0;
            }
            Ctx::Item => {
                child_indent = indent + 2;
                if has_props {
                    start = Some(self.pos());
                    self.props(n);
                    self.end_line();
                } else {
                    first_inline = true;
                }
            }
            Ctx::Value => {
                child_indent = indent + self.lay.indent;
                if has_props {
                    self.put(" ");
                    start = Some(self.pos());
                    self.props(n);
                }
                self.end_line();
            }
        }
        let mut content = None;
        match &n.kind {
            Kind::Seq { items, .. } => {
                for (i, it) in items.iter().enumerate() {
                    if !(i == 0 && first_inline) {
                        self.comment_line(child_indent);
                        self.spaces(child_indent);
                    }
                    if content.is_none() {
                        content = Some(self.pos());
                    }
                    self.put("- ");
                    self.block(it, child_indent, Ctx::Item, false);
                }
            }
            Kind::Map { entries, .. } => {
                for (i, (k, v)) in entries.iter().enumerate() {
                    if !(i == 0 && first_inline) {
                        self.comment_line(child_indent);
                        self.spaces(child_indent);
                    }
                    if content.is_none() {
                        content = Some(self.pos());
                    }
                    let simple = match &k.kind {
                        Kind::Scalar { value, style } => {
                            !matches!(effective_style(value, *style, false, false), Style::Literal | Style::Folded)
                                && !value.contains('\n')
                                && value.len() < 100
                        }
                        Kind::Alias(_) => true,
                        _ => false,
                    };
                    if simple {
                        self.inline(k, false, true);
                        if matches!(k.kind, Kind::Alias(_)) || matches!(&k.kind, Kind::Scalar{value, style: Style::Plain} if value.is_empty()) {
                            self.put(" ");
                        }
                        self.put(":");
                        self.block(v, child_indent, Ctx::Value, false);
                    } else {
                        self.put("? ");
                        self.block(k, child_indent, Ctx::Item, true);
                        self.spaces(child_indent);
                        self.put(":");
                        self.block(v, child_indent, Ctx::Value, false);
                    }
                }
            }
            _ => unreachable!(),
        }
        let content = content.unwrap_or_default();
        self.nodes[idx].start = start.unwrap_or(content);
        self.nodes[idx].content = content;
    }
}

pub fn render(doc: &Node, lay: &Layout) -> Rendered {
    let mut w = W { out: String::new(), line: 1, col: 1, chars: 0, lay, nodes: vec![], comment_no: 0 };
    if lay.mb_prefix {
        w.put("# \u{e9}\u{4e2d}\u{1f600} pr\u{e9}fixe");
        w.nl();
    }
    if lay.doc_start {
        w.put("---");
        w.nl();
    }
    w.block(doc, 0, Ctx::Root, false);
    if lay.doc_end {
        w.put("...");
        w.nl();
    }
    Rendered { text: w.out, nodes: w.nodes }
}

pub fn render_text(doc: &Node) -> String {
    render(doc, &Layout::default()).text
}

/// Render a stream of documents (every document after the first gets `---`).
pub fn render_stream(docs: &[Node], lay: &Layout) -> String {
    let mut out = String::new();
    for (i, d) in docs.iter().enumerate() {
        let l = Layout { doc_start: lay.doc_start || i > 0, mb_prefix: lay.mb_prefix && i == 0, ..lay.clone() };
        out.push_str(&render(d, &l).text);
    }
    out
}

// ------------------------------------------------------------------------------------------
// event model and raw-parser self check

#[derive(Clone, Debug, PartialEq, Eq)]
pub enum EvK {
    Scalar(String, Style),
    SeqStart,
    SeqEnd,
    MapStart,
    MapEnd,
    /// ordinal (1-based, pre-order over anchored nodes) of the anchor this alias names; 0 = unbound
    Alias(usize),
}
#[derive(Clone, Debug, PartialEq, Eq)]
pub struct Ev {
    pub k: EvK,
    /// ordinal of this node's own anchor (0 = none)
    pub anchor: usize,
    pub tag: Option<String>,
}

/// Events of the AST, with the scalar style the renderer will really use.
pub fn ast_events(doc: &Node, lay: &Layout) -> Vec<Ev> {
    fn go(n: &Node, lay: &Layout, in_flow: bool, is_key: bool, out: &mut Vec<Ev>, next: &mut usize, bound: &mut Vec<(String, usize)>) {
        let mut anchor = 0;
        if let Some(a) = &n.anchor {
            if !matches!(n.kind, Kind::Alias(_)) {
                *next += 1;
                anchor = *next;
                bound.push((a.clone(), anchor));
            }
        }
        let flow_here = in_flow
            || lay.force_flow
            || match &n.kind {
                Kind::Seq { flow, items } => *flow || items.is_empty(),
                Kind::Map { flow, entries } => *flow || entries.is_empty(),
                _ => in_flow,
            };
        match &n.kind {
            Kind::Scalar { value, style } => {
                let _ = is_key;
                // (an empty plain scalar that carries an anchor or tag is rendered as nothing)
                let eff = if value.is_empty() && *style == Style::Plain && (n.anchor.is_some() || n.tag.is_some()) {
                    Style::Plain
                } else {
                    effective_style(value, *style, in_flow, in_flow)
                };
                out.push(Ev { k: EvK::Scalar(value.clone(), eff), anchor, tag: n.tag.clone() });
            }
            Kind::Alias(name) => {
                let id = bound.iter().rev().find(|(b, _)| b == name).map(|(_, i)| *i).unwrap_or(0);
                out.push(Ev { k: EvK::Alias(id), anchor: 0, tag: None });
            }
            Kind::Seq { items, .. } => {
                out.push(Ev { k: EvK::SeqStart, anchor, tag: n.tag.clone() });
                for it in items {
                    go(it, lay, flow_here, false, out, next, bound);
                }
                out.push(Ev { k: EvK::SeqEnd, anchor: 0, tag: None });
            }
            Kind::Map { entries, .. } => {
                out.push(Ev { k: EvK::MapStart, anchor, tag: n.tag.clone() });
                for (k, v) in entries {
                    go(k, lay, flow_here, true, out, next, bound);
                    go(v, lay, flow_here, false, out, next, bound);
                }
                out.push(Ev { k: EvK::MapEnd, anchor: 0, tag: None });
            }
        }
    }
    let mut out = vec![];
    let mut next = 0;
    let mut bound = vec![];
    go(doc, lay, false, false, &mut out, &mut next, &mut bound);
    out
}

fn tag_text(t: &saphyr_parser::Tag) -> String {
    if t.handle == "tag:yaml.org,2002:" {
        format!("!!{}", t.suffix)
    } else {
        format!("{}{}", t.handle, t.suffix)
    }
}

/// Events the raw parser produces for `text` (first document only), in the same model.
/// Err(msg) when the parser rejects the text.
pub fn parser_events(text: &str) -> Result<Vec<Ev>, String> {
    use saphyr_parser::{Event, Parser, ScalarStyle};
    let mut out = vec![];
    let mut ids: Vec<(usize, usize)> = vec![]; // parser id -> ordinal
    let mut next = 0usize;
    let mut docs = 0;
    for r in Parser::new_from_str(text) {
        let (ev, _span) = r.map_err(|e| e.to_string())?;
        let mut ord = |id: usize, ids: &mut Vec<(usize, usize)>| -> usize {
            if id == 0 {
                0
            } else {
                next += 1;
                ids.push((id, next));
                next
            }
        };
        match ev {
            Event::DocumentStart(_) => {
                docs += 1;
                if docs > 1 {
                    return Err("more than one document".into());
                }
            }
            Event::Scalar(v, st, id, tag) => {
                let style = match st {
                    ScalarStyle::Plain => Style::Plain,
                    ScalarStyle::SingleQuoted => Style::Single,
                    ScalarStyle::DoubleQuoted => Style::Double,
                    ScalarStyle::Literal => Style::Literal,
                    ScalarStyle::Folded => Style::Folded,
                };
                let a = ord(id, &mut ids);
                out.push(Ev { k: EvK::Scalar(v.to_string(), style), anchor: a, tag: tag.map(|t| tag_text(&t)) });
            }
            Event::SequenceStart(id, tag) => {
                let a = ord(id, &mut ids);
                out.push(Ev { k: EvK::SeqStart, anchor: a, tag: tag.map(|t| tag_text(&t)) });
            }
            Event::MappingStart(id, tag) => {
                let a = ord(id, &mut ids);
                out.push(Ev { k: EvK::MapStart, anchor: a, tag: tag.map(|t| tag_text(&t)) });
            }
            Event::SequenceEnd => out.push(Ev { k: EvK::SeqEnd, anchor: 0, tag: None }),
            Event::MappingEnd => out.push(Ev { k: EvK::MapEnd, anchor: 0, tag: None }),
            Event::Alias(id) => {
                let o = ids.iter().rev().find(|(p, _)| *p == id).map(|(_, o)| *o).unwrap_or(0);
                out.push(Ev { k: EvK::Alias(o), anchor: 0, tag: None });
            }
            _ => {}
        }
    }
    Ok(out)
}

/// Generator soundness self-check: the rendered text must parse (raw parser) into exactly the
/// AST's events. Documents with an unbound alias are expected to be rejected by the parser.
pub fn selfcheck_render(doc: &Node, lay: &Layout, text: &str) -> Result<(), String> {
    let want = ast_events(doc, lay);
    let unbound = want.iter().any(|e| e.k == EvK::Alias(0));
    match parser_events(text) {
        Ok(got) => {
            if unbound {
                return Err("parser accepted an unbound alias".into());
            }
            if got != want {
                let i = got.iter().zip(&want).position(|(a, b)| a != b).unwrap_or(got.len().min(want.len()));
                return Err(format!("event {} differs: parser {:?} vs ast {:?}", i, got.get(i), want.get(i)));
            }
            Ok(())
        }
        Err(e) => {
            if unbound {
                Ok(())
            } else {
                Err(format!("parser rejects rendered text: {e}"))
            }
        }
    }
}

// ------------------------------------------------------------------------------------------
// reference semantics on the AST

/// Err = the document contains an alias without an earlier anchor of that name, or an alias to
/// a node that is still open (recursive).
#[derive(Clone, Debug, PartialEq, Eq)]
pub enum ExpandErr {
    Unbound(String),
    Recursive(String),
}

/// YAML semantics: an alias denotes the node most recently anchored under that name earlier
/// in the same document (names bind at the anchor mark, i.e. in pre-order). Returns the
/// alias-free, anchor-free document.
pub fn expand_aliases(doc: &Node) -> Result<Node, ExpandErr> {
    // environment: name -> Some(expanded node) once closed, None while still open
    fn go(n: &Node, env: &mut Vec<(String, Option<Node>)>) -> Result<Node, ExpandErr> {
        if let Kind::Alias(name) = &n.kind {
            return match env.iter().rev().find(|(b, _)| b == name) {
                None => Err(ExpandErr::Unbound(name.clone())),
                Some((_, None)) => Err(ExpandErr::Recursive(name.clone())),
                Some((_, Some(x))) => Ok(x.clone()),
            };
        }
        let slot = n.anchor.as_ref().map(|a| {
            env.push((a.clone(), None));
            env.len() - 1
        });
        let kind = match &n.kind {
            Kind::Scalar { .. } => unanchored_kind(n),
            Kind::Seq { flow, items } => {
                let mut v = vec![];
                for it in items {
                    v.push(go(it, env)?);
                }
                Kind::Seq { flow: *flow, items: v }
            }
            Kind::Map { flow, entries } => {
                let mut v = vec![];
                for (k, x) in entries {
                    let k2 = go(k, env)?;
                    let x2 = go(x, env)?;
                    v.push((k2, x2));
                }
                Kind::Map { flow: *flow, entries: v }
            }
            Kind::Alias(_) => unreachable!(),
        };
        let out = Node { anchor: None, tag: n.tag.clone(), kind };
        if let Some(i) = slot {
            env[i].1 = Some(out.clone());
        }
        Ok(out)
    }
    go(doc, &mut vec![])
}

/// The scalar that remains when the anchor mark is removed: an empty plain scalar that carries
/// only an anchor is rendered as nothing (an omitted node, i.e. null) - without the anchor this
/// renderer would write `""`, so the anchor-free equivalent is the plain `~`.
fn unanchored_kind(n: &Node) -> Kind {
    match &n.kind {
        Kind::Scalar { value, style: Style::Plain } if value.is_empty() && n.anchor.is_some() && n.tag.is_none() => {
            Kind::Scalar { value: "~".into(), style: Style::Plain }
        }
        k => k.clone(),
    }
}

pub fn strip_anchors(doc: &Node) -> Node {
    let mut d = doc.clone();
    d.visit_mut(&mut |n| {
        n.kind = unanchored_kind(n);
        n.anchor = None
    });
    d
}

/// Structural key identity used by the duplicate-key rule: same structure, scalar text and tag
/// (style is irrelevant).
pub fn same_key(a: &Node, b: &Node) -> bool {
    if a.tag != b.tag {
        return false;
    }
    // an empty plain scalar with a property is rendered as nothing (`&a` alone): an omitted
    // node, which the parser reports as `~` when it has no properties - the same (null) key
    fn text(n: &Node) -> Option<&str> {
        match &n.kind {
            // (with a tag - `!!str` followed by nothing - it is that tag's empty value, not null)
            Kind::Scalar { value, style: Style::Plain } if value.is_empty() && n.anchor.is_some() && n.tag.is_none() => Some("~"),
            Kind::Scalar { value, .. } => Some(value),
            _ => None,
        }
    }
    match (&a.kind, &b.kind) {
        (Kind::Scalar { .. }, Kind::Scalar { .. }) => text(a) == text(b),
        (Kind::Seq { items: x, .. }, Kind::Seq { items: y, .. }) => x.len() == y.len() && x.iter().zip(y).all(|(p, q)| same_key(p, q)),
        (Kind::Map { entries: x, .. }, Kind::Map { entries: y, .. }) => {
            x.len() == y.len() && x.iter().zip(y).all(|((k1, v1), (k2, v2))| same_key(k1, k2) && same_key(v1, v2))
        }
        (Kind::Alias(x), Kind::Alias(y)) => x == y,
        _ => false,
    }
}

/// The rule of property C03 on an alias-free document: own entries in order, then the merge
/// sources taken from last to first (a later `<<` entry, and a later element of a merge
/// sequence, overrides an earlier one), recursively; a key once seen is skipped.
/// Err when a merge value is not a mapping / (nested) sequence of mappings / null.
pub fn resolve_merges(doc: &Node) -> Result<Node, String> {
    fn is_null(n: &Node) -> bool {
        // `!!null anything` is null; a null-like text under another tag is a value
        if let Some(t) = &n.tag {
            return t == "!!null" && matches!(n.kind, Kind::Scalar { .. });
        }
        matches!(&n.kind, Kind::Scalar { value, style: Style::Plain } if matches!(value.as_str(), "~" | "null" | "Null" | "NULL"))
        // (an empty plain scalar is rendered as `""` by this renderer, which is not null)
    }
    /// flatten a merge value into its source mappings, in document order
    fn sources<'a>(v: &'a Node, out: &mut Vec<&'a Node>) -> Result<(), String> {
        match &v.kind {
            Kind::Map { .. } => {
                out.push(v);
                Ok(())
            }
            Kind::Seq { items, .. } => {
                for it in items {
                    sources(it, out)?;
                }
                Ok(())
            }
            _ if is_null(v) => Ok(()),
            _ => Err("merge value is not a mapping, sequence of mappings or null".into()),
        }
    }
    /// fully merged entries of a mapping node (values resolved recursively)
    fn merged_entries(m: &Node) -> Result<Vec<(Node, Node)>, String> {
        let Kind::Map { entries, .. } = &m.kind else { unreachable!() };
        let mut out: Vec<(Node, Node)> = vec![];
        let mut srcs: Vec<&Node> = vec![];
        for (k, v) in entries {
            if k.is_merge_key() {
                sources(v, &mut srcs)?;
            } else {
                out.push((go(k)?, go(v)?));
            }
        }
        for s in srcs.iter().rev() {
            for (k, v) in merged_entries(s)? {
                if !out.iter().any(|(k2, _)| same_key(k2, &k)) {
                    out.push((k, v));
                }
            }
        }
        Ok(out)
    }
    fn go(n: &Node) -> Result<Node, String> {
        let kind = match &n.kind {
            Kind::Seq { flow, items } => Kind::Seq { flow: *flow, items: items.iter().map(go).collect::<Result<_, _>>()? },
            Kind::Map { flow, .. } => Kind::Map { flow: *flow, entries: merged_entries(n)? },
            k => k.clone(),
        };
        Ok(Node { anchor: n.anchor.clone(), tag: n.tag.clone(), kind })
    }
    go(doc)
}

// ------------------------------------------------------------------------------------------
// strategies

pub const PLAIN_POOL: [&str; 14] = ["a", "b", "c", "k1", "foo", "bar", "1", "2", "42", "-7", "1.5", "true", "x y", "zz"];
pub const QUOTED_POOL: [&str; 10] = ["", "a", "null", "~", "12", "a: b", "# no", "it's", "x\ny", "true"];
pub const NAME_POOL: [&str; 4] = ["a", "b", "c", "d1"];

pub fn arb_scalar() -> impl Strategy<Value = Node> + Clone + use<> {
    prop_oneof![
        6 => prop::sample::select(PLAIN_POOL.to_vec()).prop_map(Node::plain),
        1 => prop::sample::select(QUOTED_POOL.to_vec()).prop_map(|v| Node::scalar(v, Style::Double)),
        1 => prop::sample::select(QUOTED_POOL.to_vec()).prop_map(|v| Node::scalar(v, Style::Single)),
        1 => prop::sample::select(vec!["line\n", "l1\nl2\n", "keep\n\n", "strip"]).prop_map(|v| Node::scalar(v, Style::Literal)),
        1 => prop::sample::select(vec!["folded text\n", "one", "two\n\n"]).prop_map(|v| Node::scalar(v, Style::Folded)),
    ]
}

/// keys: mostly distinct plain scalars
pub fn arb_key() -> impl Strategy<Value = Node> + Clone + use<> {
    prop_oneof![
        8 => prop::sample::select(vec!["k", "a", "b", "c", "x", "y", "n1", "key two", "7"]).prop_map(Node::plain),
        1 => prop::sample::select(vec!["q", "a b", "", "null"]).prop_map(|v| Node::scalar(v, Style::Double)),
    ]
}

fn dedup_keys(entries: Vec<(Node, Node)>) -> Vec<(Node, Node)> {
    let mut out: Vec<(Node, Node)> = vec![];
    for (k, v) in entries {
        if !out.iter().any(|(k2, _)| same_key(k2, &k)) {
            out.push((k, v));
        }
    }
    out
}

/// anchor-free, alias-free trees without duplicate keys; scalar / sequence / mapping keys
pub fn arb_tree(depth: u32, size: u32) -> impl Strategy<Value = Node> + Clone + use<> {
    arb_scalar().prop_recursive(depth, size, 4, |inner| {
        let key = prop_oneof![
            10 => arb_key(),
            1 => prop::collection::vec(arb_scalar(), 0..3).prop_map(|v| Node::seq(true, v)),
            // (inner keys are plain: a one-entry mapping key whose own key is "" / null / ~ trips a
            // separate, known defect of the reader's explicit-empty-key handling - see C05)
            1 => prop::collection::vec((prop::sample::select(vec!["k", "a", "b", "n1"]).prop_map(Node::plain), arb_scalar()), 1..3).prop_map(|v| Node::map(true, dedup_keys(v))),
        ];
        prop_oneof![
            (any::<bool>(), prop::collection::vec(inner.clone(), 0..4)).prop_map(|(f, v)| Node::seq(f, v)),
            (any::<bool>(), prop::collection::vec((key, inner), 0..4)).prop_map(|(f, v)| Node::map(f, dedup_keys(v))),
        ]
    })
}

/// Decorate a tree with anchors and aliases. `script` drives every choice (pure function).
/// Names bind at the anchor mark; aliases are drawn from the names bound at that point
/// (`unbound_pct` percent deliberately from the whole pool, possibly unbound).
pub fn decorate(tree: &Node, script: &[u16], anchor_pct: u16, alias_pct: u16, unbound_pct: u16) -> Node {
    struct St<'a> {
        script: &'a [u16],
        i: usize,
        bound: Vec<String>,
        open: Vec<String>,
    }
    impl<'a> St<'a> {
        fn next(&mut self) -> u16 {
            let v = if self.script.is_empty() { 0 } else { self.script[self.i % self.script.len()] };
            self.i += 1;
            v
        }
    }
    fn go(n: &Node, st: &mut St, a: u16, al: u16, ub: u16, is_root: bool) -> Node {
        let r = st.next() % 100;
        let want_unbound = st.next() % 100 < ub;
        if !is_root && r < al && (want_unbound || !st.bound.is_empty()) {
            // replace by an alias
            let r2 = st.next();
            if want_unbound {
                return Node::alias(NAME_POOL[(r2 as usize) % NAME_POOL.len()]);
            }
            // prefer names whose anchored node is already closed (an alias to a node that is
            // still open is a recursive reference)
            let r3 = st.next();
            let closed: Vec<&String> = st.bound.iter().filter(|b| !st.open.contains(b)).collect();
            let name = if closed.is_empty() || r3 % 100 < 5 {
                st.bound[(r2 as usize) % st.bound.len()].clone()
            } else {
                closed[(r2 as usize) % closed.len()].clone()
            };
            return Node::alias(&name);
        }
        let mut out = Node { anchor: None, tag: n.tag.clone(), kind: n.kind.clone() };
        let mut opened = false;
        if r >= al && r < al + a {
            let name = NAME_POOL[(st.next() as usize) % NAME_POOL.len()].to_string();
            st.bound.push(name.clone());
            st.open.push(name.clone());
            opened = true;
            out.anchor = Some(name);
        }
        out.kind = match &n.kind {
            Kind::Seq { flow, items } => Kind::Seq { flow: *flow, items: items.iter().map(|x| go(x, st, a, al, ub, false)).collect() },
            Kind::Map { flow, entries } => Kind::Map {
                flow: *flow,
                entries: entries
                    .iter()
                    .map(|(k, v)| {
                        let k2 = go(k, st, a, al / 3, ub, false);
                        let v2 = go(v, st, a, al, ub, false);
                        (k2, v2)
                    })
                    .collect(),
            },
            k => k.clone(),
        };
        if opened {
            st.open.pop();
        }
        out
    }
    let mut st = St { script, i: 0, bound: vec![], open: vec![] };
    go(tree, &mut st, anchor_pct, alias_pct, unbound_pct, true)
}

/// Expected value when every scalar is requested as a string (no schema inference takes part).
pub fn to_u_strings(n: &Node) -> crate::untyped::U {
    use crate::untyped::U;
    match &n.kind {
        Kind::Scalar { value, .. } => U::Str(value.clone()),
        Kind::Seq { items, .. } => U::Seq(items.iter().map(to_u_strings).collect()),
        Kind::Map { entries, .. } => U::Map(entries.iter().map(|(k, v)| (to_u_strings(k), to_u_strings(v))).collect()),
        Kind::Alias(a) => U::Str(format!("*{a}")),
    }
}


// ---------------------------------------------------------------------------------------------
// byte-driven construction (libFuzzer targets): same pools and shapes as the strategies above,
// decoded from an `engine::Bytes` cursor so that single-byte mutations are local edits of the
// tree. Total and bounded (depth, fan-out <= 4).
use crate::engine::Bytes;

pub fn scalar_from_bytes(b: &mut Bytes) -> Node {
    match b.below(10) {
        0..=5 => Node::plain(b.pick(&PLAIN_POOL)),
        6 => Node::scalar(b.pick(&QUOTED_POOL), Style::Double),
        7 => Node::scalar(b.pick(&QUOTED_POOL), Style::Single),
        8 => Node::scalar(b.pick(&["line\n", "l1\nl2\n", "keep\n\n", "strip"]), Style::Literal),
        _ => Node::scalar(b.pick(&["folded text\n", "one", "two\n\n"]), Style::Folded),
    }
}

pub fn key_from_bytes(b: &mut Bytes) -> Node {
    match b.below(12) {
        0..=8 => Node::plain(b.pick(&["k", "a", "b", "c", "x", "y", "n1", "key two", "7"])),
        9 => Node::scalar(b.pick(&["q", "a b", "", "null"]), Style::Double),
        10 => {
            let n = b.below(3);
            Node::seq(true, (0..n).map(|_| scalar_from_bytes(b)).collect())
        }
        _ => {
            let n = 1 + b.below(2);
            let v = (0..n).map(|_| (Node::plain(b.pick(&["k", "a", "b", "n1"])), scalar_from_bytes(b))).collect();
            Node::map(true, dedup_keys(v))
        }
    }
}

/// anchor-free, alias-free tree without duplicate keys (the shape family of `arb_tree`)
pub fn tree_from_bytes(b: &mut Bytes, depth: u32) -> Node {
    let k = if depth == 0 || b.is_empty() { 0 } else { b.below(4) };
    match k {
        0 | 1 => scalar_from_bytes(b),
        2 => {
            let flow = b.bool();
            let n = b.below(4);
            Node::seq(flow, (0..n).map(|_| tree_from_bytes(b, depth - 1)).collect())
        }
        _ => {
            let flow = b.bool();
            let n = b.below(4);
            let v = (0..n).map(|_| (key_from_bytes(b), tree_from_bytes(b, depth - 1))).collect();
            Node::map(flow, dedup_keys(v))
        }
    }
}

/// decoration script for `decorate`
pub fn script_from_bytes(b: &mut Bytes, n: usize) -> Vec<u16> {
    (0..n).map(|_| b.u16()).collect()
}
