//! The harness' own untyped tree `U` (delivery-order preserving, floats by bit pattern).
use serde::de::{self, Deserialize, Deserializer, MapAccess, SeqAccess, Visitor};
use serde::ser::{Serialize, SerializeMap, SerializeSeq, Serializer};

#[derive(Clone, Debug, PartialEq, Eq, Hash, PartialOrd, Ord)]
pub enum U {
    Null,
    Bool(bool),
    Int(i128),
    UInt(u128),
    /// bit pattern of the f64; every NaN is normalised to one pattern
    Float(u64),
    Str(String),
    Bytes(Vec<u8>),
    Seq(Vec<U>),
    Map(Vec<(U, U)>),
}

impl U {
    pub fn float(f: f64) -> U {
        if f.is_nan() { U::Float(f64::NAN.to_bits()) } else { U::Float(f.to_bits()) }
    }
    pub fn s(x: &str) -> U {
        U::Str(x.to_string())
    }
    pub fn kind(&self) -> &'static str {
        match self {
            U::Null => "null",
            U::Bool(_) => "bool",
            U::Int(_) | U::UInt(_) => "int",
            U::Float(_) => "float",
            U::Str(_) => "str",
            U::Bytes(_) => "bytes",
            U::Seq(_) => "seq",
            U::Map(_) => "map",
        }
    }
    /// Sort map entries (by key) recursively – for comparisons that ignore delivery order.
    pub fn sorted(&self) -> U {
        match self {
            U::Seq(v) => U::Seq(v.iter().map(|x| x.sorted()).collect()),
            U::Map(es) => {
                let mut v: Vec<(U, U)> = es.iter().map(|(k, x)| (k.sorted(), x.sorted())).collect();
                v.sort();
                U::Map(v)
            }
            o => o.clone(),
        }
    }
    /// Overwriting-map semantics: later duplicates replace earlier ones (position of the first kept).
    pub fn last_wins(&self) -> U {
        match self {
            U::Seq(v) => U::Seq(v.iter().map(|x| x.last_wins()).collect()),
            U::Map(es) => {
                let mut out: Vec<(U, U)> = vec![];
                for (k, v) in es {
                    let k = k.last_wins();
                    let v = v.last_wins();
                    if let Some(e) = out.iter_mut().find(|(k2, _)| *k2 == k) {
                        e.1 = v;
                    } else {
                        out.push((k, v));
                    }
                }
                U::Map(out)
            }
            o => o.clone(),
        }
    }
}

struct UV;
impl<'de> Visitor<'de> for UV {
    type Value = U;
    fn expecting(&self, f: &mut std::fmt::Formatter) -> std::fmt::Result {
        f.write_str("any YAML value")
    }
    fn visit_unit<E>(self) -> Result<U, E> {
        Ok(U::Null)
    }
    fn visit_none<E>(self) -> Result<U, E> {
        Ok(U::Null)
    }
    fn visit_some<D: Deserializer<'de>>(self, d: D) -> Result<U, D::Error> {
        U::deserialize(d)
    }
    fn visit_bool<E>(self, b: bool) -> Result<U, E> {
        Ok(U::Bool(b))
    }
    fn visit_i64<E>(self, v: i64) -> Result<U, E> {
        Ok(U::Int(v as i128))
    }
    fn visit_i128<E>(self, v: i128) -> Result<U, E> {
        Ok(U::Int(v))
    }
    fn visit_u64<E>(self, v: u64) -> Result<U, E> {
        Ok(U::Int(v as i128))
    }
    fn visit_u128<E>(self, v: u128) -> Result<U, E> {
        if v <= i128::MAX as u128 { Ok(U::Int(v as i128)) } else { Ok(U::UInt(v)) }
    }
    fn visit_f64<E>(self, v: f64) -> Result<U, E> {
        Ok(U::float(v))
    }
    fn visit_f32<E>(self, v: f32) -> Result<U, E> {
        Ok(U::float(v as f64))
    }
    fn visit_char<E>(self, v: char) -> Result<U, E> {
        Ok(U::Str(v.to_string()))
    }
    fn visit_str<E>(self, v: &str) -> Result<U, E> {
        Ok(U::Str(v.to_string()))
    }
    fn visit_string<E>(self, v: String) -> Result<U, E> {
        Ok(U::Str(v))
    }
    fn visit_bytes<E>(self, v: &[u8]) -> Result<U, E> {
        Ok(U::Bytes(v.to_vec()))
    }
    fn visit_byte_buf<E>(self, v: Vec<u8>) -> Result<U, E> {
        Ok(U::Bytes(v))
    }
    fn visit_newtype_struct<D: Deserializer<'de>>(self, d: D) -> Result<U, D::Error> {
        U::deserialize(d)
    }
    fn visit_seq<A: SeqAccess<'de>>(self, mut a: A) -> Result<U, A::Error> {
        let mut v = vec![];
        while let Some(x) = a.next_element::<U>()? {
            v.push(x);
        }
        Ok(U::Seq(v))
    }
    fn visit_map<A: MapAccess<'de>>(self, mut a: A) -> Result<U, A::Error> {
        let mut v = vec![];
        while let Some(k) = a.next_key::<U>()? {
            let x = a.next_value::<U>()?;
            v.push((k, x));
        }
        Ok(U::Map(v))
    }
}
impl<'de> Deserialize<'de> for U {
    fn deserialize<D: Deserializer<'de>>(d: D) -> Result<U, D::Error> {
        d.deserialize_any(UV)
    }
}
impl Serialize for U {
    fn serialize<S: Serializer>(&self, s: S) -> Result<S::Ok, S::Error> {
        match self {
            U::Null => s.serialize_unit(),
            U::Bool(b) => s.serialize_bool(*b),
            U::Int(i) => {
                if let Ok(x) = i64::try_from(*i) { s.serialize_i64(x) } else { s.serialize_i128(*i) }
            }
            U::UInt(u) => s.serialize_u128(*u),
            U::Float(b) => s.serialize_f64(f64::from_bits(*b)),
            U::Str(x) => s.serialize_str(x),
            U::Bytes(b) => s.serialize_bytes(b),
            U::Seq(v) => {
                let mut q = s.serialize_seq(Some(v.len()))?;
                for x in v {
                    q.serialize_element(x)?;
                }
                q.end()
            }
            U::Map(es) => {
                let mut m = s.serialize_map(Some(es.len()))?;
                for (k, v) in es {
                    m.serialize_entry(k, v)?;
                }
                m.end()
            }
        }
    }
}

/// A string-only tree: every scalar is requested with `deserialize_string`, so that no
/// schema inference takes part (used where only structure and text matter).
#[derive(Clone, Debug, PartialEq, Eq, Hash, PartialOrd, Ord)]
pub enum ST {
    S(String),
    Seq(Vec<ST>),
    Map(Vec<(ST, ST)>),
}

#[allow(unused)]
fn _unused(_: &dyn de::Expected) {}
