//! Runner shared by all property binaries: seeding, worker processes, shrinking, replay files,
//! known findings, evidence, exit codes.  See DESIGN.md section 2.
//!
//! Exit codes: 0 = held on everything explored, 1 = at least one VIOLATION line printed,
//! 2 = inconclusive (internal error, watchdog, worker crash outside C01).

use proptest::strategy::{Strategy, ValueTree};
use proptest::test_runner::{Config, RngAlgorithm, RngSeed, TestRng, TestRunner};
use serde::de::DeserializeOwned;
use serde::Serialize;
use serde_json::{json, Value};
use std::cell::RefCell;
use std::collections::{BTreeMap, HashSet};
use std::fmt::Debug;
use std::hash::Hasher;
use std::io::{Read, Write};
use std::marker::PhantomData;
use std::path::{Path, PathBuf};
use std::process::{Command, Stdio};
use std::time::{Duration, Instant};

pub const VERIF: &str = "/verif";
/// Where evidence and replay files go: /verif, unless VCHECK_OUT names another directory
/// (used only by the mutant-validation script, so that runs against scratch trees do not
/// overwrite the evidence of the real tree).
pub fn out_root() -> PathBuf {
    match std::env::var("VCHECK_OUT") {
        Ok(p) if !p.is_empty() => PathBuf::from(p),
        _ => PathBuf::from(VERIF),
    }
}
pub const NWORKERS: usize = 16;
const MAX_HASHES_PER_WORKER: usize = 6_000_000;
const MAX_VIOLATIONS_PER_BUCKET: usize = 1;
const MAX_VIOLATIONS_PER_WORKER: usize = 6;

#[derive(Clone, Copy, PartialEq, Eq, Debug)]
pub enum Tier {
    Quick,
    Thorough,
}
impl Tier {
    pub fn name(self) -> &'static str {
        match self {
            Tier::Quick => "quick",
            Tier::Thorough => "thorough",
        }
    }
    pub fn parse(s: &str) -> Tier {
        match s {
            "quick" => Tier::Quick,
            "thorough" => Tier::Thorough,
            _ => {
                eprintln!("unknown tier {s}");
                std::process::exit(2)
            }
        }
    }
    /// pick by tier
    pub fn pick<T>(self, quick: T, thorough: T) -> T {
        match self {
            Tier::Quick => quick,
            Tier::Thorough => thorough,
        }
    }
}

pub enum Outcome {
    Pass,
    Fail(String),
    /// the case is outside the domain of the property (generator self-check); counted
    Discard(&'static str),
}

pub trait Property: Sized + 'static {
    const ID: &'static str;
    const LEVEL: &'static str = "exploration";
    /// Write every case to a progress file before running it so that a crash or hang of the
    /// worker can be attributed to a case (used by C01, where that is a violation).
    const TRACE: bool = false;
    /// Crash / hang of the library is itself a violation of this property.
    const CRASH_IS_VIOLATION: bool = false;
    type Case: Serialize + DeserializeOwned + Clone + Debug + Send + 'static;
    fn rule() -> String;
    fn assumptions() -> Vec<String> {
        vec![]
    }
    fn check(case: &Self::Case) -> Outcome;
    /// Predicate over the *case* naming the known finding (by signature id) whose domain it
    /// belongs to. Only consulted for findings whose status is "open".
    fn signatures(_case: &Self::Case) -> Vec<&'static str> {
        vec![]
    }
    /// Like `signatures`, but consulted only once the case has *failed*, with the failure
    /// message: a finding whose domain cannot be told from the case alone without also hiding
    /// other kinds of failure on the same cases (a panic, say) is keyed on (case, failure).
    fn failure_signature(_case: &Self::Case, _message: &str) -> Option<&'static str> {
        None
    }
    /// Extra shrink candidates (smaller first) used after / instead of proptest shrinking.
    fn shrink(_case: &Self::Case) -> Vec<Self::Case> {
        vec![]
    }
    fn generate(ctx: &mut Ctx<Self>);
    /// Coverage-guided mode: decode a libFuzzer input into (sub-check name, case, non-trivial).
    /// Decoders are written per property over `Bytes` (total: any byte string decodes or is
    /// rejected with None); the default means the property has no fuzz target.
    fn fuzz_decode(_data: &[u8]) -> Option<(&'static str, Self::Case, bool)> {
        None
    }
    fn selfcheck() -> Result<(), String> {
        Ok(())
    }
}

// ------------------------------------------------------------------------------------------
// panic capture

thread_local! {
    static LAST_PANIC: RefCell<Option<(String, String)>> = const { RefCell::new(None) };
    static QUIET: RefCell<bool> = const { RefCell::new(false) };
}

pub fn install_panic_hook() {
    let prev = std::panic::take_hook();
    std::panic::set_hook(Box::new(move |info| {
        let msg = if let Some(s) = info.payload().downcast_ref::<&str>() {
            s.to_string()
        } else if let Some(s) = info.payload().downcast_ref::<String>() {
            s.clone()
        } else {
            "<non-string panic payload>".to_string()
        };
        let loc = info
            .location()
            .map(|l| format!("{}:{}", l.file(), l.line()))
            .unwrap_or_default();
        let quiet = QUIET.with(|q| *q.borrow());
        LAST_PANIC.with(|p| *p.borrow_mut() = Some((msg, loc)));
        if !quiet {
            prev(info);
        }
    }));
}

/// Result of running a closure under `catch_unwind`.
pub enum Caught<T> {
    Ok(T),
    /// (message, location)
    Panic(String, String),
}

/// Run `f`, catching panics quietly. Location is "file:line".
pub fn catch<T>(f: impl FnOnce() -> T) -> Caught<T> {
    let was = QUIET.with(|q| q.replace(true));
    LAST_PANIC.with(|p| *p.borrow_mut() = None);
    let r = std::panic::catch_unwind(std::panic::AssertUnwindSafe(f));
    QUIET.with(|q| *q.borrow_mut() = was);
    match r {
        Ok(v) => Caught::Ok(v),
        Err(_) => {
            let (m, l) = LAST_PANIC
                .with(|p| p.borrow_mut().take())
                .unwrap_or(("<unknown>".into(), String::new()));
            Caught::Panic(m, l)
        }
    }
}

/// Is this panic location inside the library under test (or its parser) rather than the harness?
pub fn panic_in_library(loc: &str) -> bool {
    // harness sources are reported relative to the harness crate ("src/bin/c14.rs",
    // "src/engine.rs"); the library is a path dependency outside it and is reported with its
    // absolute path ("/repo/src/de.rs", or a scratch copy ".../repo/src/..." in mutant runs)
    if loc.starts_with("src/") || loc.contains("/harness/src/") || loc.contains("/h/src/") {
        return false;
    }
    loc.contains("/repo/") || loc.contains("saphyr-parser") || loc.contains("/rustc/") || loc.contains("library/") || loc.contains("/.cargo/registry/")
}

// ------------------------------------------------------------------------------------------
// hashing of cases

struct HashWriter(std::collections::hash_map::DefaultHasher);
impl std::fmt::Write for HashWriter {
    fn write_str(&mut self, s: &str) -> std::fmt::Result {
        self.0.write(s.as_bytes());
        Ok(())
    }
}
pub fn debug_hash<T: Debug>(t: &T) -> u64 {
    use std::fmt::Write as _;
    #[allow(deprecated)]
    let mut w = HashWriter(std::collections::hash_map::DefaultHasher::new());
    let _ = write!(w, "{:?}", t);
    w.0.finish()
}

pub fn splitmix(mut x: u64) -> u64 {
    x = x.wrapping_add(0x9E3779B97F4A7C15);
    let mut z = x;
    z = (z ^ (z >> 30)).wrapping_mul(0xBF58476D1CE4E5B9);
    z = (z ^ (z >> 27)).wrapping_mul(0x94D049BB133111EB);
    z ^ (z >> 31)
}

// ------------------------------------------------------------------------------------------
// known findings

#[derive(Clone, Debug, serde::Deserialize)]
pub struct Finding {
    pub id: String,
    pub property: String,
    pub status: String, // "open" | "fixed"
    pub signature: String,
    pub witness: String,
    #[serde(default)]
    pub hang: bool,
    pub what: String,
    #[serde(default)]
    pub record: String,
}

pub fn load_findings() -> Vec<Finding> {
    // /verif/known_findings.json plus per-property fragments /verif/findings.d/*.json
    let mut files = vec![Path::new(VERIF).join("known_findings.json")];
    if let Ok(rd) = std::fs::read_dir(Path::new(VERIF).join("findings.d")) {
        let mut extra: Vec<PathBuf> = rd
            .filter_map(|e| e.ok().map(|e| e.path()))
            .filter(|p| p.extension().map(|x| x == "json").unwrap_or(false))
            .collect();
        extra.sort();
        files.extend(extra);
    }
    let mut out = vec![];
    for p in files {
        let Ok(s) = std::fs::read_to_string(&p) else { continue };
        let v: Value = match serde_json::from_str(&s) {
            Ok(v) => v,
            Err(e) => {
                eprintln!("{} does not parse: {e}", p.display());
                std::process::exit(2)
            }
        };
        let arr = v.get("findings").cloned().unwrap_or(json!([]));
        match serde_json::from_value::<Vec<Finding>>(arr) {
            Ok(f) => out.extend(f),
            Err(e) => {
                eprintln!("{} has a bad entry: {e}", p.display());
                std::process::exit(2)
            }
        }
    }
    out
}

// ------------------------------------------------------------------------------------------
// worker context

#[derive(Default, Serialize, serde::Deserialize)]
pub struct WorkerResult {
    pub evaluations: u64,
    pub nontrivial: u64,
    pub classes: BTreeMap<String, u64>,
    pub excluded_known: BTreeMap<String, u64>,
    pub discards: BTreeMap<String, u64>,
    pub samples: Vec<Value>,
    pub violations: Vec<Value>,
    pub subspaces: Vec<Value>,
    pub maxima: BTreeMap<String, f64>,
    pub internal_errors: Vec<String>,
    pub hashes_capped: bool,
}

struct SampleSlot {
    first: Vec<Value>,
    min_hash: Option<(u64, Value)>,
}

pub struct Ctx<P: Property> {
    pub tier: Tier,
    pub seed: u64,
    pub worker: usize,
    pub nworkers: usize,
    pub res: WorkerResult,
    hashes: HashSet<u64>,
    open_sigs: HashSet<String>,
    samples: BTreeMap<(String, bool), SampleSlot>,
    buckets: BTreeMap<String, usize>,
    trace: Option<std::fs::File>,
    /// development aid: VCHECK_ONLY=<substring> restricts the run to matching sub-checks
    only: Option<String>,
    survey: Option<std::fs::File>,
    max_violations: usize,
    _p: PhantomData<P>,
}

fn bucket_of(sub: &str, msg: &str) -> String {
    let m: String = msg
        .chars()
        .filter(|c| !c.is_ascii_digit())
        .take(48)
        .collect();
    format!("{sub}|{m}")
}

impl<P: Property> Ctx<P> {
    /// Deterministic proptest runner for (seed, worker, stream).
    pub fn runner(&self, stream: u64) -> TestRunner {
        let s = splitmix(self.seed ^ splitmix(self.worker as u64 ^ splitmix(stream ^ 0xC0FFEE)));
        let mut bytes = [0u8; 32];
        let mut x = s;
        for chunk in bytes.chunks_mut(8) {
            x = splitmix(x);
            chunk.copy_from_slice(&x.to_le_bytes());
        }
        let rng = TestRng::from_seed(RngAlgorithm::ChaCha, &bytes);
        let cfg = Config {
            failure_persistence: None,
            rng_seed: RngSeed::Fixed(s),
            ..Config::default()
        };
        TestRunner::new_with_rng(cfg, rng)
    }
    /// Does item `i` of an enumerated space belong to this worker?
    pub fn mine(&self, i: u64) -> bool {
        (i % self.nworkers as u64) as usize == self.worker
    }
    pub fn class(&mut self, name: &str) {
        *self.res.classes.entry(name.to_string()).or_insert(0) += 1;
    }
    pub fn class_n(&mut self, name: &str, n: u64) {
        *self.res.classes.entry(name.to_string()).or_insert(0) += n;
    }
    pub fn maximum(&mut self, name: &str, v: f64) {
        let e = self.res.maxima.entry(name.to_string()).or_insert(f64::MIN);
        if v > *e {
            *e = v;
        }
    }
    /// Declare an enumerated sub-space (only worker 0 reports it).
    pub fn subspace(&mut self, name: &str, size: u64, exhaustive: bool) {
        if self.worker == 0 {
            self.res
                .subspaces
                .push(json!({"name": name, "size": size, "exhaustive": exhaustive}));
        }
    }
    pub fn internal_error(&mut self, msg: String) {
        if self.res.internal_errors.len() < 20 {
            self.res.internal_errors.push(msg);
        }
    }
    fn is_open_known(&self, case: &P::Case) -> Option<&'static str> {
        if self.open_sigs.is_empty() {
            return None;
        }
        P::signatures(case)
            .into_iter()
            .find(|s| self.open_sigs.contains(*s))
    }

    /// Evaluate the oracle on one case without bookkeeping: Some(msg) if it fails.
    fn fails(&mut self, case: &P::Case) -> Option<String> {
        if self.is_open_known(case).is_some() {
            return None;
        }
        let m = match catch(|| P::check(case)) {
            Caught::Ok(Outcome::Pass) | Caught::Ok(Outcome::Discard(_)) => None,
            Caught::Ok(Outcome::Fail(m)) => Some(m),
            Caught::Panic(m, l) => {
                if panic_in_library(&l) {
                    Some(format!("panic at {l}: {m}"))
                } else {
                    None
                }
            }
        }?;
        if self.is_open_known_failure(case, &m).is_some() {
            return None;
        }
        Some(m)
    }
    fn is_open_known_failure(&self, case: &P::Case, msg: &str) -> Option<&'static str> {
        P::failure_signature(case, msg).filter(|s| self.open_sigs.contains(*s))
    }

    fn take_sample(&mut self, sub: &str, nontrivial: bool, h: u64, case: &P::Case) {
        let slot = self
            .samples
            .entry((sub.to_string(), nontrivial))
            .or_insert(SampleSlot { first: vec![], min_hash: None });
        if slot.first.len() < 1 {
            slot.first
                .push(json!({"check": sub, "nontrivial": nontrivial, "case": to_json(case)}));
        } else if slot.min_hash.as_ref().is_none_or(|(m, _)| h < *m) {
            slot.min_hash = Some((
                h,
                json!({"check": sub, "nontrivial": nontrivial, "case": to_json(case)}),
            ));
        }
    }

    /// Full pipeline for one case. Returns true when the case passed (or was skipped).
    pub fn case(&mut self, sub: &str, case: &P::Case, nontrivial: bool) -> bool {
        self.case_with(sub, case, nontrivial, None::<&mut NoTree<P::Case>>)
    }

    fn case_with<T: ValueTree<Value = P::Case>>(
        &mut self,
        sub: &str,
        case: &P::Case,
        nontrivial: bool,
        tree: Option<&mut T>,
    ) -> bool {
        if let Some(only) = &self.only {
            if !sub.contains(only.as_str()) {
                return true;
            }
        }
        if let Some(sig) = self.is_open_known(case) {
            *self.res.excluded_known.entry(sig.to_string()).or_insert(0) += 1;
            return true;
        }
        if let Some(f) = self.trace.as_mut() {
            use std::io::{Seek, SeekFrom};
            let s = serde_json::to_vec(&json!({"check": sub, "case": to_json(case)})).unwrap_or_default();
            let _ = f.seek(SeekFrom::Start(0));
            let _ = f.write_all(&(s.len() as u64).to_le_bytes());
            let _ = f.write_all(&s);
        }
        let h = debug_hash(case);
        let outcome = catch(|| P::check(case));
        let msg = match outcome {
            Caught::Ok(Outcome::Pass) => None,
            Caught::Ok(Outcome::Discard(why)) => {
                *self.res.discards.entry(why.to_string()).or_insert(0) += 1;
                return true;
            }
            Caught::Ok(Outcome::Fail(m)) => Some(m),
            Caught::Panic(m, l) => {
                if panic_in_library(&l) {
                    Some(format!("panic at {l}: {m}"))
                } else {
                    self.internal_error(format!(
                        "harness panic at {l}: {m} on case {}",
                        serde_json::to_string(case).unwrap_or_default()
                    ));
                    return true;
                }
            }
        };
        self.res.evaluations += 1;
        if nontrivial {
            self.res.nontrivial += 1;
            if self.hashes.len() < MAX_HASHES_PER_WORKER {
                self.hashes.insert(h);
            } else {
                self.res.hashes_capped = true;
            }
        }
        self.take_sample(sub, nontrivial, h, case);
        let Some(msg) = msg else { return true };
        if let Some(sig) = self.is_open_known_failure(case, &msg) {
            *self.res.excluded_known.entry(sig.to_string()).or_insert(0) += 1;
            return true;
        }
        if let Some(f) = self.survey.as_mut() {
            // development aid: dump every failing case, no shrinking
            let _ = writeln!(f, "{}", json!({"check": sub, "case": to_json(case), "msg": msg}));
            return false;
        }

        // violation: bucket, shrink, record
        let b = bucket_of(sub, &msg);
        *self.res.classes.entry(format!("FAIL {b}")).or_insert(0) += 1;
        let seen = self.buckets.entry(b).or_insert(0);
        *seen += 1;
        if *seen > MAX_VIOLATIONS_PER_BUCKET || self.res.violations.len() >= self.max_violations
        {
            *self.res.classes.entry("violations_not_recorded".into()).or_insert(0) += 1;
            return false;
        }
        let mut best = case.clone();
        let mut best_msg = msg;
        // 1. proptest shrinking
        if let Some(tree) = tree {
            let mut steps = 0;
            while steps < 2000 && tree.simplify() {
                steps += 1;
                loop {
                    let cand = tree.current();
                    if let Some(m) = self.fails(&cand) {
                        best = cand;
                        best_msg = m;
                        break;
                    } else if !tree.complicate() {
                        break;
                    }
                    steps += 1;
                    if steps > 4000 {
                        break;
                    }
                }
            }
        }
        // 2. property-provided shrinking, greedy
        let mut rounds = 0;
        'outer: while rounds < 500 {
            rounds += 1;
            for cand in P::shrink(&best) {
                if let Some(m) = self.fails(&cand) {
                    best = cand;
                    best_msg = m;
                    continue 'outer;
                }
            }
            break;
        }
        let replay = write_replay::<P>(sub, self.tier, self.seed, &best, &best_msg, "replays");
        self.res.violations.push(json!({
            "check": sub, "message": best_msg, "replay": replay, "case": to_json(&best),
        }));
        false
    }

    /// Draw `n` cases from a proptest strategy; failures are shrunk through the value tree.
    pub fn run_strategy<S: Strategy<Value = P::Case>>(
        &mut self,
        sub: &str,
        stream: u64,
        n: usize,
        strat: &S,
        nontrivial: impl Fn(&P::Case) -> bool,
    ) {
        if let Some(only) = &self.only {
            if !sub.contains(only.as_str()) {
                return;
            }
        }
        let mut runner = self.runner(stream);
        for _ in 0..n {
            let mut tree = match strat.new_tree(&mut runner) {
                Ok(t) => t,
                Err(_) => {
                    *self.res.discards.entry("strategy_rejected".into()).or_insert(0) += 1;
                    continue;
                }
            };
            let case = tree.current();
            let nt = nontrivial(&case);
            self.case_with(sub, &case, nt, Some(&mut tree));
        }
    }
}

/// Cases must be representable as JSON (replay files); a case type that is not is a harness bug.
pub fn to_json<T: Serialize + Debug>(t: &T) -> Value {
    match serde_json::to_value(t) {
        Ok(v) => v,
        Err(e) => {
            eprintln!("internal: case is not representable as JSON ({e}): {t:?}");
            std::process::exit(2)
        }
    }
}

/// serde helper: 128-bit integers as decimal strings (serde_json cannot hold them).
pub mod as_str {
    use serde::{Deserialize, Deserializer, Serializer};
    pub fn serialize<T: std::fmt::Display, S: Serializer>(v: &T, s: S) -> Result<S::Ok, S::Error> {
        s.collect_str(v)
    }
    pub fn deserialize<'de, T: std::str::FromStr, D: Deserializer<'de>>(d: D) -> Result<T, D::Error> {
        let s = String::deserialize(d)?;
        s.parse::<T>().map_err(|_| serde::de::Error::custom("bad number"))
    }
}

/// Placeholder value tree type for cases that do not come from proptest.
pub struct NoTree<T>(PhantomData<T>);
impl<T: Debug> ValueTree for NoTree<T> {
    type Value = T;
    fn current(&self) -> T {
        unreachable!()
    }
    fn simplify(&mut self) -> bool {
        false
    }
    fn complicate(&mut self) -> bool {
        false
    }
}

fn write_replay<P: Property>(
    sub: &str,
    tier: Tier,
    seed: u64,
    case: &P::Case,
    msg: &str,
    dir: &str,
) -> String {
    let v = json!({
        "property": P::ID, "check": sub, "tier": tier.name(), "seed": seed,
        "case": to_json(case), "verdict": msg,
    });
    let s = serde_json::to_string_pretty(&v).unwrap_or_default();
    let h = debug_hash(&s);
    let d = out_root().join(dir).join(P::ID);
    let _ = std::fs::create_dir_all(&d);
    let p = d.join(format!("{:016x}.json", h));
    let _ = std::fs::write(&p, s);
    p.to_string_lossy().into_owned()
}

// ------------------------------------------------------------------------------------------
// process entry point

fn env_seed() -> u64 {
    std::env::var("VERIF_SEED")
        .ok()
        .and_then(|s| s.trim().parse::<i128>().ok())
        .map(|v| v as u64)
        .unwrap_or(1)
}

fn set_rlimit_as(bytes: u64) {
    unsafe {
        let lim = libc::rlimit { rlim_cur: bytes, rlim_max: bytes };
        libc::setrlimit(libc::RLIMIT_AS, &lim);
    }
}

fn tmp_dir() -> PathBuf {
    let d = out_root().join("harness/target/vcheck-tmp");
    let _ = std::fs::create_dir_all(&d);
    d
}

// ------------------------------------------------------------------------------------------
// coverage-guided mode

/// Cursor over a libFuzzer input for the per-property decoders. Total: once the input is used
/// up every draw returns 0, so bounded decoders always terminate.
pub struct Bytes<'a> {
    d: &'a [u8],
    i: usize,
}
impl<'a> Bytes<'a> {
    pub fn new(d: &'a [u8]) -> Self {
        Bytes { d, i: 0 }
    }
    pub fn is_empty(&self) -> bool {
        self.i >= self.d.len()
    }
    pub fn u8(&mut self) -> u8 {
        let v = self.d.get(self.i).copied().unwrap_or(0);
        self.i += 1;
        v
    }
    pub fn u16(&mut self) -> u16 {
        u16::from_le_bytes([self.u8(), self.u8()])
    }
    pub fn u32(&mut self) -> u32 {
        u32::from_le_bytes([self.u8(), self.u8(), self.u8(), self.u8()])
    }
    pub fn u64(&mut self) -> u64 {
        (self.u32() as u64) | ((self.u32() as u64) << 32)
    }
    pub fn bool(&mut self) -> bool {
        self.u8() & 1 == 1
    }
    /// a value in 0..n (n >= 1); one byte for n <= 256
    pub fn below(&mut self, n: usize) -> usize {
        if n <= 1 {
            0
        } else if n <= 256 {
            self.u8() as usize % n
        } else {
            self.u32() as usize % n
        }
    }
    pub fn pick<T: Copy>(&mut self, xs: &[T]) -> T {
        xs[self.below(xs.len())]
    }
    /// the next `n` bytes (fewer at the end of the input)
    pub fn take(&mut self, n: usize) -> &'a [u8] {
        let a = self.i.min(self.d.len());
        let b = (a + n).min(self.d.len());
        self.i = b;
        &self.d[a..b]
    }
    /// everything that is left
    pub fn rest(&mut self) -> &'a [u8] {
        self.take(usize::MAX / 2)
    }
    /// the rest as text: valid UTF-8 is taken as is, anything else lossily
    pub fn rest_text(&mut self) -> String {
        String::from_utf8_lossy(self.rest()).into_owned()
    }
}

fn bare_ctx<P: Property>(open_sigs: HashSet<String>) -> Ctx<P> {
    Ctx::<P> {
        tier: Tier::Thorough,
        seed: 0,
        worker: 0,
        nworkers: 1,
        res: WorkerResult::default(),
        hashes: HashSet::new(),
        open_sigs,
        samples: BTreeMap::new(),
        buckets: BTreeMap::new(),
        trace: None,
        survey: None,
        only: None,
        max_violations: 1,
        _p: PhantomData,
    }
}

/// Statistics a fuzz target accumulates in-process (written by `fuzz_stats_flush`).
#[derive(Default)]
struct FuzzStats {
    execs: u64,
    undecodable: u64,
    evaluated: u64,
    nontrivial: u64,
    excluded_known: u64,
    discards: u64,
    per_sub: BTreeMap<String, u64>,
    samples: BTreeMap<String, Value>,
    hashes: HashSet<u64>,
}
struct FuzzState {
    sigs: HashSet<String>,
    stats: FuzzStats,
}
thread_local! {
    static FUZZ_STATE: RefCell<Option<FuzzState>> = const { RefCell::new(None) };
}

/// One libFuzzer execution for property `P`: the bytes are decoded into a case by the
/// property's own decoder and the case goes through the same pipeline as in the random tiers
/// (known-finding signatures, oracle, property-provided shrinking, replay file). A violation
/// prints the VIOLATION line and aborts so that libFuzzer keeps the input as a crash artifact.
pub fn fuzz_one<P: Property>(data: &[u8]) {
    FUZZ_STATE.with(|st| {
        let mut st = st.borrow_mut();
        if st.is_none() {
            install_panic_hook();
            QUIET.with(|q| *q.borrow_mut() = true);
            let sigs: HashSet<String> = load_findings()
                .into_iter()
                .filter(|f| f.property == P::ID && f.status == "open")
                .map(|f| f.signature)
                .collect();
            *st = Some(FuzzState { sigs, stats: FuzzStats::default() });
        }
        let state = st.as_mut().unwrap();
        state.stats.execs += 1;
        let Some((sub, case, nt)) = P::fuzz_decode(data) else {
            state.stats.undecodable += 1;
            return;
        };
        let mut ctx = bare_ctx::<P>(state.sigs.clone());
        ctx.case(sub, &case, nt);
        let fs = &mut state.stats;
        fs.evaluated += ctx.res.evaluations;
        fs.excluded_known += ctx.res.excluded_known.values().sum::<u64>();
        fs.discards += ctx.res.discards.values().sum::<u64>();
        *fs.per_sub.entry(sub.to_string()).or_insert(0) += 1;
        if nt && ctx.res.evaluations > 0 {
            if fs.hashes.len() < MAX_HASHES_PER_WORKER {
                fs.hashes.insert(debug_hash(&case));
            }
            fs.nontrivial = fs.hashes.len() as u64;
            if fs.execs % 512 == 1 || !fs.samples.contains_key(sub) {
                fs.samples.insert(sub.to_string(), to_json(&case));
            }
        }
        let bad = !ctx.res.internal_errors.is_empty() || !ctx.res.violations.is_empty();
        if fs.execs % 2048 == 0 || bad {
            fuzz_stats_flush::<P>(fs);
        }
        if !ctx.res.internal_errors.is_empty() {
            eprintln!("INTERNAL property={} {}", P::ID, ctx.res.internal_errors[0]);
            std::process::abort();
        }
        if let Some(v) = ctx.res.violations.first() {
            println!("  {}: {}", v["check"].as_str().unwrap_or(""), v["message"].as_str().unwrap_or(""));
            println!("VIOLATION property={} replay={}", P::ID, v["replay"].as_str().unwrap_or(""));
            std::process::abort();
        }
    });
}

/// per-process statistics file `<VCHECK_FUZZ_STATS>/<pid>.json` (summed by tools/fuzz_tier.py)
fn fuzz_stats_flush<P: Property>(fs: &FuzzStats) {
    let Ok(dir) = std::env::var("VCHECK_FUZZ_STATS") else { return };
    let _ = std::fs::create_dir_all(&dir);
    let v = json!({
        "property": P::ID, "execs": fs.execs, "undecodable": fs.undecodable, "evaluated": fs.evaluated,
        "distinct_nontrivial": fs.nontrivial, "excluded_known": fs.excluded_known, "discards": fs.discards,
        "per_check": fs.per_sub, "samples": fs.samples,
    });
    let _ = std::fs::write(Path::new(&dir).join(format!("{}.json", std::process::id())), serde_json::to_vec(&v).unwrap_or_default());
    // hashes of the distinct non-trivial cases, so that the driver can count them across processes
    let mut hb = Vec::with_capacity(fs.hashes.len() * 8);
    for h in &fs.hashes {
        hb.extend_from_slice(&h.to_le_bytes());
    }
    let _ = std::fs::write(Path::new(&dir).join(format!("{}.hashes", std::process::id())), hb);
}

/// `fuzz-case <input file> <out.json>`: decode a libFuzzer input into its case and write it as
/// an ordinary replay file (no oracle involved), so that crash / timeout artifacts can be judged
/// by `replay` in the release build.
fn fuzz_case<P: Property>(input: &Path, out: &Path) -> i32 {
    let Ok(data) = std::fs::read(input) else {
        eprintln!("cannot read {}", input.display());
        return 2;
    };
    match P::fuzz_decode(&data) {
        Some((sub, case, _)) => {
            let v = json!({"property": P::ID, "check": sub, "tier": "thorough", "seed": 0, "case": to_json(&case), "verdict": "decoded from a libFuzzer input"});
            match std::fs::write(out, serde_json::to_string_pretty(&v).unwrap_or_default()) {
                Ok(()) => 0,
                Err(e) => {
                    eprintln!("cannot write {}: {e}", out.display());
                    2
                }
            }
        }
        None => {
            eprintln!("the input does not decode to a case");
            2
        }
    }
}

pub fn main<P: Property>() -> ! {
    install_panic_hook();
    let args: Vec<String> = std::env::args().collect();
    let code = match args.get(1).map(|s| s.as_str()) {
        Some("run") => parent::<P>(Tier::parse(args.get(2).map(|s| s.as_str()).unwrap_or("quick"))),
        Some("worker") => {
            let tier = Tier::parse(&args[2]);
            let idx: usize = args[3].parse().unwrap();
            let seed: u64 = args[4].parse().unwrap();
            let out = PathBuf::from(&args[5]);
            worker::<P>(tier, idx, seed, &out)
        }
        Some("replay") => replay::<P>(Path::new(&args[2])),
        Some("signatures") => {
            // development aid: which known-finding signatures does the case of a replay file carry?
            let v: Value = serde_json::from_str(&std::fs::read_to_string(&args[2]).unwrap_or_default()).unwrap_or(Value::Null);
            match serde_json::from_value::<P::Case>(v["case"].clone()) {
                Ok(c) => {
                    println!("{:?}", P::signatures(&c));
                    0
                }
                Err(e) => {
                    eprintln!("bad case: {e}");
                    2
                }
            }
        }
        Some("fuzz-case") => big_stack({
            let (a, b) = (PathBuf::from(&args[2]), PathBuf::from(&args[3]));
            move || fuzz_case::<P>(&a, &b)
        }),
        _ => {
            eprintln!("usage: {} run <quick|thorough> | replay <file>", args[0]);
            2
        }
    };
    std::process::exit(code)
}

fn big_stack<T: Send + 'static>(f: impl FnOnce() -> T + Send + 'static) -> T {
    std::thread::Builder::new()
        .stack_size(512 << 20)
        .spawn(f)
        .unwrap()
        .join()
        .unwrap_or_else(|_| {
            eprintln!("internal: worker thread panicked");
            std::process::exit(2)
        })
}

fn worker<P: Property>(tier: Tier, idx: usize, seed: u64, out: &Path) -> i32 {
    set_rlimit_as(12 << 30);
    let out = out.to_path_buf();
    big_stack(move || {
        let open_sigs: HashSet<String> = load_findings()
            .into_iter()
            .filter(|f| f.property == P::ID && f.status == "open")
            .map(|f| f.signature)
            .collect();
        let trace = if P::TRACE {
            std::fs::File::create(out.with_extension("progress")).ok()
        } else {
            None
        };
        let mut ctx = Ctx::<P> {
            tier,
            seed,
            worker: idx,
            nworkers: NWORKERS,
            res: WorkerResult::default(),
            hashes: HashSet::new(),
            open_sigs,
            samples: BTreeMap::new(),
            buckets: BTreeMap::new(),
            trace,
            survey: std::env::var("VCHECK_SURVEY").ok().and_then(|p| std::fs::OpenOptions::new().create(true).append(true).open(format!("{p}.{idx}")).ok()),
            only: std::env::var("VCHECK_ONLY").ok().filter(|s| !s.is_empty()),
            max_violations: std::env::var("VCHECK_MAXV").ok().and_then(|s| s.parse().ok()).unwrap_or(MAX_VIOLATIONS_PER_WORKER),
            _p: PhantomData,
        };
        P::generate(&mut ctx);
        for (_, slot) in std::mem::take(&mut ctx.samples) {
            ctx.res.samples.extend(slot.first);
            if let Some((_, v)) = slot.min_hash {
                ctx.res.samples.push(v);
            }
        }
        let mut hb = Vec::with_capacity(ctx.hashes.len() * 8);
        for h in &ctx.hashes {
            hb.extend_from_slice(&h.to_le_bytes());
        }
        let _ = std::fs::write(out.with_extension("hashes"), hb);
        let _ = std::fs::write(&out, serde_json::to_vec(&ctx.res).unwrap());
        0
    })
}

fn run_replay_child(exe: &Path, path: &Path, timeout: Duration) -> Result<i32, &'static str> {
    let mut child = Command::new(exe)
        .arg("replay")
        .arg(path)
        .stdout(Stdio::null())
        .stderr(Stdio::null())
        .spawn()
        .map_err(|_| "spawn")?;
    let t0 = Instant::now();
    loop {
        match child.try_wait() {
            Ok(Some(st)) => {
                return match st.code() {
                    Some(c) => Ok(c),
                    None => Err("signal"),
                };
            }
            Ok(None) => {
                if t0.elapsed() > timeout {
                    let _ = child.kill();
                    let _ = child.wait();
                    return Err("timeout");
                }
                std::thread::sleep(Duration::from_millis(20));
            }
            Err(_) => return Err("wait"),
        }
    }
}

fn replay<P: Property>(path: &Path) -> i32 {
    set_rlimit_as(12 << 30);
    let Ok(s) = std::fs::read_to_string(path) else {
        eprintln!("cannot read {}", path.display());
        return 2;
    };
    let v: Value = match serde_json::from_str(&s) {
        Ok(v) => v,
        Err(e) => {
            eprintln!("bad replay file: {e}");
            return 2;
        }
    };
    let case: P::Case = match serde_json::from_value(v["case"].clone()) {
        Ok(c) => c,
        Err(e) => {
            eprintln!("replay case does not match this check's case type: {e}");
            return 2;
        }
    };
    let path = path.to_path_buf();
    big_stack(move || match catch(|| P::check(&case)) {
        Caught::Ok(Outcome::Pass) => {
            println!("replay {}: property holds on this case", path.display());
            0
        }
        Caught::Ok(Outcome::Discard(w)) => {
            println!("replay {}: case discarded ({w})", path.display());
            0
        }
        Caught::Ok(Outcome::Fail(m)) => {
            println!("replay {}: {m}", path.display());
            println!("VIOLATION property={} replay={}", P::ID, path.display());
            1
        }
        Caught::Panic(m, l) => {
            if panic_in_library(&l) {
                println!("replay {}: panic at {l}: {m}", path.display());
                println!("VIOLATION property={} replay={}", P::ID, path.display());
                1
            } else {
                eprintln!("internal: harness panic at {l}: {m}");
                2
            }
        }
    })
}

fn sc_confirm(exe: &Path, p: &Path) -> bool {
    matches!(run_replay_child(exe, p, Duration::from_secs(120)), Ok(1) | Err("signal") | Err("timeout"))
}

fn read_progress(p: &Path) -> Option<Value> {
    let mut f = std::fs::File::open(p).ok()?;
    let mut len = [0u8; 8];
    f.read_exact(&mut len).ok()?;
    let n = u64::from_le_bytes(len) as usize;
    let mut buf = vec![0u8; n];
    f.read_exact(&mut buf).ok()?;
    serde_json::from_slice(&buf).ok()
}

fn parent<P: Property>(tier: Tier) -> i32 {
    let t0 = Instant::now();
    let seed = env_seed();
    let exe = std::env::current_exe().expect("current_exe");
    let mut violations: Vec<Value> = vec![];
    let mut known_lines: Vec<String> = vec![];
    let mut witness_notes: Vec<Value> = vec![];
    let mut inconclusive: Vec<String> = vec![];

    // The self-check compares harness components with each other and, for some properties, with
    // the library (e.g. the run-time serde impls against derived types through to_string /
    // from_str). When it fails the run is inconclusive at best - but the cases are still run: if
    // the cause is a defect of the tree under test they report it, and a violation wins.
    if let Err(e) = P::selfcheck() {
        eprintln!("internal: harness self-check failed: {e}");
        inconclusive.push(format!("harness self-check failed: {e}"));
    }

    // 1. known findings: replay the committed witnesses
    for f in load_findings().into_iter().filter(|f| f.property == P::ID) {
        let wp = Path::new(VERIF).join(&f.witness);
        let r = run_replay_child(&exe, &wp, Duration::from_secs(if f.hang { 20 } else { 300 }));
        let reproduces = match r {
            Ok(1) => true,
            Ok(0) => false,
            Err("timeout") | Err("signal") if f.hang || P::CRASH_IS_VIOLATION => true,
            other => {
                inconclusive.push(format!("witness {} could not be replayed: {:?}", f.witness, other));
                continue;
            }
        };
        match (f.status.as_str(), reproduces) {
            ("open", true) => known_lines.push(format!("KNOWN-FINDING: property={} {}", P::ID, f.what)),
            ("open", false) => witness_notes.push(json!({"finding": f.id, "note": "witness no longer reproduces"})),
            ("fixed", true) => {
                println!("fixed finding {} is back: {}", f.id, f.what);
                violations.push(json!({"check": "fixed-finding-regression", "message": f.what, "replay": wp.to_string_lossy()}));
            }
            _ => {}
        }
    }
    for l in &known_lines {
        println!("{l}");
    }

    // 2. workers
    let tmp = tmp_dir();
    let tag = format!("{}-{}-{}", P::ID, tier.name(), std::process::id());
    let mut children = vec![];
    for i in 0..NWORKERS {
        let out = tmp.join(format!("{tag}-w{i}.json"));
        let _ = std::fs::remove_file(&out);
        let _ = std::fs::remove_file(out.with_extension("progress"));
        let child = Command::new(&exe)
            .args(["worker", tier.name(), &i.to_string(), &seed.to_string()])
            .arg(&out)
            .stdout(Stdio::inherit())
            .stderr(Stdio::inherit())
            .spawn()
            .expect("spawn worker");
        children.push((i, out, Some(child), Instant::now()));
    }
    let limit = Duration::from_secs(tier.pick(40 * 60, 6 * 3600));
    let stall = Duration::from_secs(tier.pick(180, 600));
    let mut results: Vec<WorkerResult> = vec![];
    let mut all_hashes: HashSet<u64> = HashSet::new();
    let mut crash_cases: Vec<(usize, &'static str, Option<Value>)> = vec![];
    loop {
        let mut running = 0;
        for (i, out, child, _started) in children.iter_mut() {
            let Some(c) = child.as_mut() else { continue };
            match c.try_wait() {
                Ok(Some(st)) => {
                    if st.success() {
                        match std::fs::read(&*out).ok().and_then(|b| serde_json::from_slice::<WorkerResult>(&b).ok()) {
                            Some(r) => {
                                if let Ok(hb) = std::fs::read(out.with_extension("hashes")) {
                                    for ch in hb.chunks_exact(8) {
                                        all_hashes.insert(u64::from_le_bytes(ch.try_into().unwrap()));
                                    }
                                }
                                results.push(r);
                            }
                            None => inconclusive.push(format!("worker {i} produced no result")),
                        }
                    } else {
                        let pc = read_progress(&out.with_extension("progress"));
                        crash_cases.push((*i, "crash", pc));
                        if !P::TRACE {
                            inconclusive.push(format!("worker {i} died: {st}"));
                        }
                    }
                    *child = None;
                }
                Ok(None) => {
                    running += 1;
                    let mut kill = None;
                    if t0.elapsed() > limit {
                        kill = Some("time limit");
                    } else if P::TRACE {
                        let pp = out.with_extension("progress");
                        if let Ok(md) = std::fs::metadata(&pp) {
                            if let Ok(m) = md.modified() {
                                if m.elapsed().map(|e| e > stall).unwrap_or(false) {
                                    kill = Some("stall");
                                }
                            }
                        }
                    }
                    if let Some(why) = kill {
                        let _ = c.kill();
                        let _ = c.wait();
                        let pc = read_progress(&out.with_extension("progress"));
                        if why == "stall" {
                            crash_cases.push((*i, "hang", pc));
                        } else {
                            inconclusive.push(format!("worker {i} killed: {why}"));
                        }
                        *child = None;
                    }
                }
                Err(e) => {
                    inconclusive.push(format!("worker {i}: wait failed: {e}"));
                    *child = None;
                }
            }
        }
        if running == 0 {
            break;
        }
        std::thread::sleep(Duration::from_millis(50));
    }
    // crash / hang attribution (TRACE properties only): distinct cases, at most 6 of them (a
    // hanging or crashing tree stops every worker that meets the defect), each confirmed twice
    // in fresh processes, all confirmations in parallel
    let mut todo: Vec<(usize, &'static str, PathBuf, Value)> = vec![];
    let mut not_confirmed_extra = 0usize;
    for (i, kind, pc) in crash_cases {
        if !P::TRACE {
            continue;
        }
        let Some(pc) = pc else {
            inconclusive.push(format!("worker {i} {kind} without progress record"));
            continue;
        };
        let v = json!({"property": P::ID, "check": pc["check"], "tier": tier.name(), "seed": seed,
            "case": pc["case"], "verdict": format!("worker {kind} while running this case")});
        let s = serde_json::to_string_pretty(&v).unwrap();
        let d = out_root().join("replays").join(P::ID);
        let _ = std::fs::create_dir_all(&d);
        let p = d.join(format!("{:016x}.json", debug_hash(&s)));
        if todo.iter().any(|t| t.2 == p) {
            continue;
        }
        if todo.len() >= 6 {
            not_confirmed_extra += 1;
            continue;
        }
        let _ = std::fs::write(&p, s);
        todo.push((i, kind, p, pc["check"].clone()));
    }
    let confirmed: Vec<usize> = std::thread::scope(|sc| {
        let hs: Vec<_> = todo
            .iter()
            .map(|(_, _, p, _)| {
                let exe = &exe;
                sc.spawn(move || {
                    let two: Vec<_> = (0..2).map(|_| sc_confirm(exe, p)).collect();
                    two.into_iter().filter(|x| *x).count()
                })
            })
            .collect();
        hs.into_iter().map(|h| h.join().unwrap_or(0)).collect()
    });
    for ((i, kind, p, check), n) in todo.into_iter().zip(confirmed) {
        if n == 2 && P::CRASH_IS_VIOLATION {
            violations.push(json!({"check": check, "message": format!("process {kind}"), "replay": p.to_string_lossy()}));
        } else {
            inconclusive.push(format!("worker {i} {kind}, not confirmed in isolation ({n}/2): {}", p.display()));
        }
    }
    if not_confirmed_extra > 0 {
        println!("note: {not_confirmed_extra} further crashed / stalled workers were not attributed (limit of 6 distinct cases)");
    }
    for (_, out, _, _) in &children {
        let _ = std::fs::remove_file(out);
        let _ = std::fs::remove_file(out.with_extension("hashes"));
        let _ = std::fs::remove_file(out.with_extension("progress"));
    }

    // 3. aggregate
    let mut agg = WorkerResult::default();
    for r in results {
        agg.evaluations += r.evaluations;
        agg.nontrivial += r.nontrivial;
        for (k, v) in r.classes {
            *agg.classes.entry(k).or_insert(0) += v;
        }
        for (k, v) in r.excluded_known {
            *agg.excluded_known.entry(k).or_insert(0) += v;
        }
        for (k, v) in r.discards {
            *agg.discards.entry(k).or_insert(0) += v;
        }
        for (k, v) in r.maxima {
            let e = agg.maxima.entry(k).or_insert(f64::MIN);
            if v > *e {
                *e = v;
            }
        }
        agg.samples.extend(r.samples);
        agg.violations.extend(r.violations);
        agg.subspaces.extend(r.subspaces);
        agg.internal_errors.extend(r.internal_errors);
        agg.hashes_capped |= r.hashes_capped;
    }
    violations.extend(agg.violations.iter().cloned());
    for e in &agg.internal_errors {
        inconclusive.push(format!("internal: {e}"));
    }
    // discards are generator defects when frequent
    let total_disc: u64 = agg
        .discards
        .iter()
        .filter(|(k, _)| k.starts_with("selfcheck") || k.starts_with("strategy"))
        .map(|(_, v)| *v)
        .sum();
    if total_disc as f64 > 0.02 * (agg.evaluations.max(1) as f64) && total_disc > 50 {
        inconclusive.push(format!("generator discards too frequent: {:?}", agg.discards));
    }

    // samples: keep a bounded, deterministic selection, truncated for readability
    let mut samples: Vec<Value> = vec![];
    let mut seen_keys: BTreeMap<String, usize> = BTreeMap::new();
    agg.samples.sort_by_key(|s| serde_json::to_string(s).map(|x| x.len()).unwrap_or(0));
    for s in agg.samples {
        let key = format!("{}|{}", s["check"], s["nontrivial"]);
        let n = seen_keys.entry(key).or_insert(0);
        if *n < 2 && samples.len() < 40 {
            *n += 1;
            let txt = serde_json::to_string(&s).unwrap_or_default();
            if txt.len() > 3000 {
                samples.push(json!({"check": s["check"], "nontrivial": s["nontrivial"], "case_truncated": txt.chars().take(3000).collect::<String>()}));
            } else {
                samples.push(s);
            }
        }
    }
    let exhaustive_all = !agg.subspaces.is_empty()
        && agg.subspaces.iter().all(|s| s["exhaustive"] == json!(true));
    let mut rule = P::rule();
    if agg.hashes_capped {
        rule.push_str(" [distinct_nontrivial is a lower bound: the per-worker hash set was capped]");
    }
    let evidence = json!({
        "property_id": P::ID,
        "tier": tier.name(),
        "seed": seed as i64,
        "level": P::LEVEL,
        "coverage": {
            "evaluations": agg.evaluations,
            "distinct_nontrivial": all_hashes.len(),
            "nontrivial_evaluations": agg.nontrivial,
            "rule": rule,
            "samples": samples,
            "classes": agg.classes,
            "subspaces": agg.subspaces,
            "exhaustive": exhaustive_all,
            "excluded_known": agg.excluded_known,
            "generator_discards": agg.discards,
            "maxima": agg.maxima,
            "known_findings_reported": known_lines,
            "witness_notes": witness_notes,
            "inconclusive": inconclusive,
            "workers": NWORKERS,
        },
        "assumptions": P::assumptions(),
        "wall_s": t0.elapsed().as_secs_f64(),
        "violations": violations.len(),
    });
    let ep = out_root().join("evidence").join(format!("{}.json", P::ID));
    let _ = std::fs::create_dir_all(ep.parent().unwrap());
    if let Err(e) = std::fs::write(&ep, serde_json::to_string_pretty(&evidence).unwrap()) {
        eprintln!("cannot write evidence: {e}");
        return 2;
    }
    println!(
        "{} {}: evaluations={} distinct_nontrivial={} excluded_known={} violations={} wall={:.1}s",
        P::ID,
        tier.name(),
        agg.evaluations,
        all_hashes.len(),
        agg.excluded_known.values().sum::<u64>(),
        violations.len(),
        t0.elapsed().as_secs_f64()
    );
    if !violations.is_empty() {
        for v in &violations {
            println!("  {}: {}", v["check"].as_str().unwrap_or("?"), v["message"].as_str().unwrap_or("?"));
            println!("VIOLATION property={} replay={}", P::ID, v["replay"].as_str().unwrap_or("?"));
        }
        return 1;
    }
    if !inconclusive.is_empty() {
        for m in &inconclusive {
            eprintln!("INCONCLUSIVE: {m}");
        }
        return 2;
    }
    0
}

/// Map a 16-bit-ish index monotonically (helps proptest shrinking; see the brief).
pub fn pick_idx(raw: u16, len: usize) -> usize {
    ((raw as usize) * len) >> 16
}
