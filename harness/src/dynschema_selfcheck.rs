//! Start-up self check: for a family of ordinary derived types the run-time-schema
//! `S` / `D` must produce byte-identical YAML and equivalent values to the derived impls.
use crate::dynschema::{Ty, D, DV, S, VK};
use serde::de::DeserializeSeed;
use serde::{Deserialize, Serialize};
use std::collections::BTreeMap;

#[derive(Serialize, Deserialize, Debug, PartialEq)]
struct St {
    a: i64,
    b: Option<String>,
    c: Vec<bool>,
}
#[derive(Serialize, Deserialize, Debug, PartialEq)]
enum En {
    Va,
    Vb(i64),
    Vc(i64, String),
    Vd { a: bool, b: i64 },
}
#[derive(Serialize, Deserialize, Debug, PartialEq)]
struct Nt(Vec<i64>);
#[derive(Serialize, Deserialize, Debug, PartialEq)]
struct Ts(i64, String);

fn cmp<T: Serialize + for<'de> Deserialize<'de> + std::fmt::Debug + PartialEq>(name: &str, derived: &T, ty: &Ty, dv: &DV) -> Result<(), String> {
    let a = serde_saphyr::to_string(derived).map_err(|e| format!("{name}: derived ser failed: {e}"))?;
    let b = serde_saphyr::to_string(&S(ty, dv)).map_err(|e| format!("{name}: dyn ser failed: {e}"))?;
    if a != b {
        return Err(format!("{name}: derived emits {a:?}, run-time schema emits {b:?}"));
    }
    // both readers on the derived text must agree on success
    let r1 = serde_saphyr::from_str::<T>(&a).map(|v| &v == derived);
    let r2 = serde_saphyr::with_deserializer_from_str(&a, |d| D(ty).deserialize(d)).map(|v| &v == dv);
    match (r1, r2) {
        (Ok(x), Ok(y)) if x == y => Ok(()),
        (Err(_), Err(_)) => Ok(()),
        (x, y) => Err(format!("{name}: derived read gives {x:?}, run-time schema read gives {y:?} on {a:?}")),
    }
}

pub fn run() -> Result<(), String> {
    let s = |x: &str| DV::Str(x.to_string());
    cmp(
        "struct",
        &St { a: 5, b: Some("x y".into()), c: vec![true, false] },
        &Ty::Struct(vec![Ty::Int, Ty::Opt(Box::new(Ty::Str)), Ty::Seq(Box::new(Ty::Bool))], false),
        &DV::Struct(vec![DV::Int(5), DV::Some(Box::new(s("x y"))), DV::Seq(vec![DV::Bool(true), DV::Bool(false)])]),
    )?;
    cmp(
        "struct-none",
        &St { a: -1, b: None, c: vec![] },
        &Ty::Struct(vec![Ty::Int, Ty::Opt(Box::new(Ty::Str)), Ty::Seq(Box::new(Ty::Bool))], false),
        &DV::Struct(vec![DV::Int(-1), DV::None, DV::Seq(vec![])]),
    )?;
    let en = Ty::Enum(vec![VK::Unit, VK::New(Box::new(Ty::Int)), VK::Tup(vec![Ty::Int, Ty::Str]), VK::St(vec![Ty::Bool, Ty::Int])]);
    cmp("unit-variant", &En::Va, &en, &DV::Var(0, vec![]))?;
    cmp("newtype-variant", &En::Vb(7), &en, &DV::Var(1, vec![DV::Int(7)]))?;
    cmp("tuple-variant", &En::Vc(7, "q".into()), &en, &DV::Var(2, vec![DV::Int(7), s("q")]))?;
    cmp("struct-variant", &En::Vd { a: true, b: 2 }, &en, &DV::Var(3, vec![DV::Bool(true), DV::Int(2)]))?;
    cmp("seq-of-enum", &vec![En::Va, En::Vb(1), En::Vd { a: false, b: 0 }], &Ty::Seq(Box::new(en.clone())), &DV::Seq(vec![DV::Var(0, vec![]), DV::Var(1, vec![DV::Int(1)]), DV::Var(3, vec![DV::Bool(false), DV::Int(0)])]))?;
    cmp("newtype-struct", &Nt(vec![1, 2]), &Ty::NT(Box::new(Ty::Seq(Box::new(Ty::Int)))), &DV::NT(Box::new(DV::Seq(vec![DV::Int(1), DV::Int(2)]))))?;
    cmp("tuple-struct", &Ts(3, "t".into()), &Ty::TS(vec![Ty::Int, Ty::Str]), &DV::Seq(vec![DV::Int(3), s("t")]))?;
    cmp("tuple", &(1i64, "z".to_string(), true), &Ty::Tuple(vec![Ty::Int, Ty::Str, Ty::Bool]), &DV::Seq(vec![DV::Int(1), s("z"), DV::Bool(true)]))?;
    let mut m = BTreeMap::new();
    m.insert("k".to_string(), vec![1i64]);
    m.insert("l".to_string(), vec![]);
    cmp(
        "map",
        &m,
        &Ty::Map(Box::new(Ty::Str), Box::new(Ty::Seq(Box::new(Ty::Int)))),
        &DV::Map(vec![(s("k"), DV::Seq(vec![DV::Int(1)])), (s("l"), DV::Seq(vec![]))]),
    )?;
    let mut m2 = BTreeMap::new();
    m2.insert(3i64, ());
    cmp("int-key-unit", &m2, &Ty::Map(Box::new(Ty::Int), Box::new(Ty::Unit)), &DV::Map(vec![(DV::Int(3), DV::Unit)]))?;
    Ok(())
}
