//! Independent usage counter over the raw saphyr-parser event stream plus a model of alias
//! replay (DESIGN.md Appendix B). Shared by C07 (budget exactness) and C08 (bounded work).
//! Nothing here calls serde-saphyr.
use saphyr_parser::{Event, Parser, ScalarStyle};
use serde::{Deserialize, Serialize};

#[derive(Clone, Debug, Default, PartialEq, Eq, Serialize, Deserialize)]
pub struct Usage {
    pub events: usize,
    pub nodes: usize,
    pub max_depth: usize,
    pub aliases: usize,
    pub anchors: usize,
    pub scalar_bytes: usize,
    pub merge_keys: usize,
    pub documents: usize,
    /// replayed events (sum over all aliases) - AliasLimits::max_total_replayed_events, per document max
    pub replayed_events: usize,
    /// largest number of aliases naming one anchor (per document)
    pub max_expansions_per_anchor: usize,
}

#[derive(Clone, Copy, Debug, PartialEq, Eq, Hash, Serialize, Deserialize)]
pub enum Counter {
    Events,
    Nodes,
    Depth,
    Aliases,
    Anchors,
    ScalarBytes,
    MergeKeys,
    Documents,
}
pub const COUNTERS: [Counter; 8] = [
    Counter::Events,
    Counter::Nodes,
    Counter::Depth,
    Counter::Aliases,
    Counter::Anchors,
    Counter::ScalarBytes,
    Counter::MergeKeys,
    Counter::Documents,
];

/// where a counter first reached its final value
#[derive(Clone, Copy, Debug, PartialEq, Eq)]
pub struct Hit {
    /// reached on a raw parser event (true) or on a replayed one (false)
    pub raw: bool,
    /// 1-based line / column of that raw event (of the alias for replayed events)
    pub line: usize,
    pub col: usize,
}

#[derive(Clone, Debug)]
enum LEv {
    Scalar { len: usize, merge_like: bool },
    SeqStart,
    SeqEnd,
    MapStart,
    MapEnd,
}

enum Ctx {
    Seq,
    Map { expecting_key: bool },
}

struct Frame {
    id: usize,
    depth: usize,
    buf: Vec<LEv>,
}

pub struct Analysis {
    /// whole stream (AllContent policy)
    pub total: Usage,
    /// raw parser events only (what `check_yaml_budget` sees): no replay
    pub raw: Usage,
    /// per document (PerDocument policy): counters restart at every document start
    pub per_doc: Vec<Usage>,
    /// for the whole stream: the event at which each counter first reached its final value
    pub first_final: Vec<(Counter, Hit)>,
    /// a mapping in which an alias occurs (as key or value) before a later plain `<<` scalar of
    /// the same mapping (the library's key/value parity tracking is known to drift there)
    pub alias_then_merge_in_same_map: bool,
    /// a tagged plain `<<` key inside an anchored node that is aliased later
    pub raw_events: usize,
}

struct St {
    u: Usage,
    doc: Usage,
    per_doc: Vec<Usage>,
    depth: usize,
    ctx: Vec<Ctx>,
    frames: Vec<Frame>,
    anchors: Vec<Option<Vec<LEv>>>,
    seen_anchor_ids: Vec<usize>,
    doc_anchor_ids: Vec<usize>,
    expansions: Vec<(usize, usize)>,
    hits: Vec<(Counter, usize, Hit)>, // counter, value reached, where
}

impl St {
    fn note(&mut self, c: Counter, v: usize, hit: Hit) {
        // remember the first event at which the counter took value v (values are monotone)
        if let Some(e) = self.hits.iter_mut().find(|(cc, _, _)| *cc == c) {
            if v > e.1 {
                e.1 = v;
                e.2 = hit;
            }
        } else if v > 0 {
            self.hits.push((c, v, hit));
        }
    }
    fn node_completed(&mut self) {
        if let Some(Ctx::Map { expecting_key }) = self.ctx.last_mut() {
            *expecting_key = !*expecting_key;
        }
    }
    fn in_key_position(&self) -> bool {
        matches!(self.ctx.last(), Some(Ctx::Map { expecting_key: true }))
    }
    fn bump_event(&mut self, hit: Hit) {
        self.u.events += 1;
        self.doc.events += 1;
        let v = self.u.events;
        self.note(Counter::Events, v, hit);
    }
    fn record(&mut self, ev: &LEv, is_start: bool, seeded: bool) {
        // append to every open frame (the one just created for this start already has it)
        let n = self.frames.len();
        for (i, f) in self.frames.iter_mut().enumerate() {
            if seeded && i == n - 1 {
                continue;
            }
            f.buf.push(ev.clone());
        }
        let _ = is_start;
    }
    /// one logical (raw or replayed) content event
    fn logical(&mut self, ev: &LEv, anchor: usize, hit: Hit) {
        self.bump_event(hit);
        match ev {
            LEv::Scalar { len, merge_like } => {
                self.u.nodes += 1;
                self.doc.nodes += 1;
                let v = self.u.nodes;
                self.note(Counter::Nodes, v, hit);
                self.u.scalar_bytes += len;
                self.doc.scalar_bytes += len;
                let v = self.u.scalar_bytes;
                self.note(Counter::ScalarBytes, v, hit);
                if *merge_like && self.in_key_position() {
                    self.u.merge_keys += 1;
                    self.doc.merge_keys += 1;
                    let v = self.u.merge_keys;
                    self.note(Counter::MergeKeys, v, hit);
                }
                self.record(ev, false, false);
                if anchor != 0 {
                    self.set_anchor(anchor, vec![ev.clone()]);
                }
                self.node_completed();
            }
            LEv::SeqStart | LEv::MapStart => {
                self.u.nodes += 1;
                self.doc.nodes += 1;
                let v = self.u.nodes;
                self.note(Counter::Nodes, v, hit);
                self.depth += 1;
                if self.depth > self.u.max_depth {
                    self.u.max_depth = self.depth;
                    let v = self.depth;
                    self.note(Counter::Depth, v, hit);
                }
                if self.depth > self.doc.max_depth {
                    self.doc.max_depth = self.depth;
                }
                for f in self.frames.iter_mut() {
                    f.depth += 1;
                }
                let seeded = anchor != 0;
                if seeded {
                    self.frames.push(Frame { id: anchor, depth: 1, buf: vec![ev.clone()] });
                }
                self.record(ev, true, seeded);
                self.ctx.push(if matches!(ev, LEv::MapStart) { Ctx::Map { expecting_key: true } } else { Ctx::Seq });
            }
            LEv::SeqEnd | LEv::MapEnd => {
                self.depth = self.depth.saturating_sub(1);
                self.record(ev, false, false);
                let mut closed = vec![];
                for f in self.frames.iter_mut() {
                    f.depth -= 1;
                }
                while let Some(f) = self.frames.last() {
                    if f.depth == 0 {
                        closed.push(self.frames.pop().unwrap());
                    } else {
                        break;
                    }
                }
                for f in closed {
                    self.set_anchor(f.id, f.buf);
                }
                self.ctx.pop();
                self.node_completed();
            }
        }
    }
    fn set_anchor(&mut self, id: usize, buf: Vec<LEv>) {
        if id >= self.anchors.len() {
            self.anchors.resize(id + 1, None);
        }
        self.anchors[id] = Some(buf);
    }
    fn define_anchor(&mut self, id: usize, hit: Hit) {
        if id != 0 {
            if !self.seen_anchor_ids.contains(&id) {
                self.seen_anchor_ids.push(id);
                self.u.anchors = self.seen_anchor_ids.len();
                let v = self.u.anchors;
                self.note(Counter::Anchors, v, hit);
            }
            if !self.doc_anchor_ids.contains(&id) {
                self.doc_anchor_ids.push(id);
                self.doc.anchors = self.doc_anchor_ids.len();
            }
        }
    }
}

/// Analyse `text`. Err when the raw parser rejects it or an alias has no recorded anchor.
pub fn analyze(text: &str) -> Result<Analysis, String> {
    analyze_capped(text, usize::MAX)
}

/// Like [`analyze`], but gives up (Err("too big")) once more than `cap` logical events were seen.
pub fn analyze_capped(text: &str, cap: usize) -> Result<Analysis, String> {
    let mut st = St {
        u: Usage::default(),
        doc: Usage::default(),
        per_doc: vec![],
        depth: 0,
        ctx: vec![],
        frames: vec![],
        anchors: vec![],
        seen_anchor_ids: vec![],
        doc_anchor_ids: vec![],
        expansions: vec![],
        hits: vec![],
    };
    let mut raw_events = 0;
    let mut raw = Usage::default();
    let mut raw_depth = 0usize;
    let mut raw_ids: Vec<usize> = vec![];
    let mut raw_ctx: Vec<Option<bool>> = vec![]; // Some(expecting_key) for maps, None for seqs
    let mut in_doc = false;
    let mut alias_then_merge = false;
    // per open mapping: has an alias been seen in it (directly)?
    let mut map_alias_seen: Vec<bool> = vec![];
    for r in Parser::new_from_str(text) {
        let (ev, span) = r.map_err(|e| e.to_string())?;
        raw_events += 1;
        let hit = Hit { raw: true, line: span.start.line(), col: span.start.col() + 1 };
        // ---- raw-only counters
        {
            fn done(ctx: &mut Vec<Option<bool>>) {
                if let Some(Some(k)) = ctx.last_mut() {
                    *k = !*k;
                }
            }
            match &ev {
                Event::Nothing => {}
                Event::StreamStart | Event::StreamEnd | Event::DocumentEnd => raw.events += 1,
                Event::DocumentStart(_) => {
                    raw.events += 1;
                    raw.documents += 1;
                }
                Event::Scalar(v, style, id, tag) => {
                    raw.events += 1;
                    raw.nodes += 1;
                    raw.scalar_bytes += v.len();
                    if *id != 0 && !raw_ids.contains(id) {
                        raw_ids.push(*id);
                    }
                    if v == "<<" && matches!(style, ScalarStyle::Plain) && tag.is_none() && matches!(raw_ctx.last(), Some(Some(true))) {
                        raw.merge_keys += 1;
                    }
                    done(&mut raw_ctx);
                }
                Event::SequenceStart(id, _) | Event::MappingStart(id, _) => {
                    raw.events += 1;
                    raw.nodes += 1;
                    raw_depth += 1;
                    raw.max_depth = raw.max_depth.max(raw_depth);
                    if *id != 0 && !raw_ids.contains(id) {
                        raw_ids.push(*id);
                    }
                    raw_ctx.push(if matches!(ev, Event::MappingStart(..)) { Some(true) } else { None });
                }
                Event::SequenceEnd | Event::MappingEnd => {
                    raw.events += 1;
                    raw_depth = raw_depth.saturating_sub(1);
                    raw_ctx.pop();
                    done(&mut raw_ctx);
                }
                Event::Alias(_) => {
                    raw.events += 1;
                    raw.aliases += 1;
                    done(&mut raw_ctx);
                }
            }
            raw.anchors = raw_ids.len();
        }
        match ev {
            Event::StreamStart | Event::StreamEnd | Event::DocumentEnd => {
                st.bump_event(hit);
            }
            Event::Nothing => {}
            Event::DocumentStart(_) => {
                if in_doc {
                    let d = std::mem::take(&mut st.doc);
                    st.per_doc.push(d);
                }
                in_doc = true;
                st.doc = Usage::default();
                st.doc_anchor_ids.clear();
                st.expansions.clear();
                // anchors are per document
                for a in st.anchors.iter_mut() {
                    *a = None;
                }
                st.frames.clear();
                st.bump_event(hit);
                st.u.documents += 1;
                st.doc.documents = 1;
                let v = st.u.documents;
                st.note(Counter::Documents, v, hit);
            }
            Event::Scalar(v, style, id, tag) => {
                st.define_anchor(id, hit);
                let merge_like = v == "<<" && matches!(style, ScalarStyle::Plain);
                let is_merge = merge_like && tag.is_none();
                if merge_like && matches!(st.ctx.last(), Some(Ctx::Map { .. })) && map_alias_seen.last().copied().unwrap_or(false) {
                    alias_then_merge = true;
                }
                // a *tagged* `<<` is not a merge key, neither raw nor when it is replayed through
                // an alias (the recorded copy keeps its tag; the library did lose it before
                // fix b140086, and this model followed it until the tagged-anchor documents
                // were added to the small-document family)
                let raw_ev = LEv::Scalar { len: v.len(), merge_like: is_merge };
                let rec_ev = LEv::Scalar { len: v.len(), merge_like: is_merge };
                // count as raw, but record the replay view
                st.bump_event(hit);
                st.u.nodes += 1;
                st.doc.nodes += 1;
                let n = st.u.nodes;
                st.note(Counter::Nodes, n, hit);
                st.u.scalar_bytes += v.len();
                st.doc.scalar_bytes += v.len();
                let n = st.u.scalar_bytes;
                st.note(Counter::ScalarBytes, n, hit);
                if let LEv::Scalar { merge_like: true, .. } = raw_ev {
                    if st.in_key_position() {
                        st.u.merge_keys += 1;
                        st.doc.merge_keys += 1;
                        let n = st.u.merge_keys;
                        st.note(Counter::MergeKeys, n, hit);
                    }
                }
                st.record(&rec_ev, false, false);
                if id != 0 {
                    st.set_anchor(id, vec![rec_ev]);
                }
                st.node_completed();
            }
            Event::SequenceStart(id, _) => {
                st.define_anchor(id, hit);
                st.logical(&LEv::SeqStart, id, hit);
                map_alias_seen.push(false);
            }
            Event::MappingStart(id, _) => {
                st.define_anchor(id, hit);
                st.logical(&LEv::MapStart, id, hit);
                map_alias_seen.push(false);
            }
            Event::SequenceEnd => {
                st.logical(&LEv::SeqEnd, 0, hit);
                map_alias_seen.pop();
            }
            Event::MappingEnd => {
                st.logical(&LEv::MapEnd, 0, hit);
                map_alias_seen.pop();
            }
            Event::Alias(id) => {
                st.bump_event(hit);
                st.u.aliases += 1;
                st.doc.aliases += 1;
                let n = st.u.aliases;
                st.note(Counter::Aliases, n, hit);
                if let Some(m) = map_alias_seen.last_mut() {
                    if matches!(st.ctx.last(), Some(Ctx::Map { .. })) {
                        *m = true;
                    }
                }
                if let Some(e) = st.expansions.iter_mut().find(|(i, _)| *i == id) {
                    e.1 += 1;
                } else {
                    st.expansions.push((id, 1));
                }
                let mx = st.expansions.iter().map(|(_, n)| *n).max().unwrap_or(0);
                st.doc.max_expansions_per_anchor = st.doc.max_expansions_per_anchor.max(mx);
                st.u.max_expansions_per_anchor = st.u.max_expansions_per_anchor.max(mx);
                let buf = st.anchors.get(id).cloned().flatten().ok_or_else(|| "alias without recorded anchor".to_string())?;
                let rhit = Hit { raw: false, ..hit };
                st.doc.replayed_events += buf.len();
                st.u.replayed_events = st.u.replayed_events.max(st.doc.replayed_events);
                if st.u.events.saturating_add(buf.len()) > cap {
                    return Err("too big".into());
                }
                for e in &buf {
                    st.logical(e, 0, rhit);
                }
            }
        }
    }
    if in_doc {
        let d = std::mem::take(&mut st.doc);
        st.per_doc.push(d);
    }
    let first_final = st.hits.iter().map(|(c, _, h)| (*c, *h)).collect();
    Ok(Analysis { total: st.u, raw, per_doc: st.per_doc, first_final, alias_then_merge_in_same_map: alias_then_merge, raw_events })
}

impl Usage {
    pub fn get(&self, c: Counter) -> usize {
        match c {
            Counter::Events => self.events,
            Counter::Nodes => self.nodes,
            Counter::Depth => self.max_depth,
            Counter::Aliases => self.aliases,
            Counter::Anchors => self.anchors,
            Counter::ScalarBytes => self.scalar_bytes,
            Counter::MergeKeys => self.merge_keys,
            Counter::Documents => self.documents,
        }
    }
}
