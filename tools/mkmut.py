#!/usr/bin/env python3
"""usage: mkmut.py <out.diff> <file-relative-to-/repo> <old> <new> [<old> <new> ...]
Writes a unified diff (against /repo's working tree) replacing exactly one occurrence of each <old>."""
import sys,difflib
out,rel=sys.argv[1],sys.argv[2]
src=open('/repo/'+rel).read()
new=src
args=sys.argv[3:]
for i in range(0,len(args),2):
    o,n=args[i],args[i+1]
    o=o.encode().decode('unicode_escape'); n=n.encode().decode('unicode_escape')
    if new.count(o)!=1: sys.exit(f'{rel}: {new.count(o)} occurrences of {o!r}')
    new=new.replace(o,n)
d=''.join(difflib.unified_diff(src.splitlines(True),new.splitlines(True),'a/'+rel,'b/'+rel))
open(out,'a').write(d)
