#!/usr/bin/env python3
"""Collects /verif/seeded/*/{meta.json,check_result.txt} into /verif/seeded/RESULTS.md."""
import json, os, re
root = '/verif/seeded'
rows = []
for d in sorted(os.listdir(root)):
    m = os.path.join(root, d, 'meta.json')
    if not os.path.isfile(m):
        continue
    meta = json.load(open(m))
    res = ''
    p = os.path.join(root, d, 'check_result.txt')
    if os.path.isfile(p):
        res = open(p).read().strip()
    caught = []
    for line in res.splitlines():
        mm = re.match(r'\S+ (C\d\d): exit=(\d+) violations=(\d+)\s*(.*)', line)
        if mm:
            caught.append((mm.group(1), int(mm.group(2)), int(mm.group(3)), mm.group(4)))
    title = meta.get('title') or meta.get('needs_to_manifest', '').splitlines()[0][:110]
    rows.append((d, meta['property'], title, caught, meta.get('strengthened', ''), meta.get('status', ''), meta.get('status_note', '')))
with open(os.path.join(root, 'RESULTS.md'), 'w') as f:
    f.write('# Independent seeded changes and what the checks report on them\n\n')
    f.write('Each change was written by a fresh sub-agent that saw only the property text and a scratch worktree;\n'
            'each compiles, passes the 1627 existing tests and has a demonstration (`demo.rs`) that fails with it and\n'
            'passes without. `tools/run_seeded.sh` applies a change to a scratch copy of /repo and runs the quick tier\n'
            'of the property\'s check there. "strengthened" names what was added to the check after a first miss.\n\n')
    f.write('| seed | property | change | quick check | first message | strengthened |\n|---|---|---|---|---|---|\n')
    n = c = 0
    skipped = []
    for d, prop, title, caught, st, status, note in rows:
        if status:
            skipped.append((d, status, note))
            f.write(f'| {d} | {prop} | {title.replace("|", "/")} | {status} (not counted) | | {note} |\n')
            continue
        n += 1
        ok = any(v > 0 and e == 1 for (_, e, v, _) in caught)
        c += ok
        verdict = '; '.join(f'{p}: ' + ('CAUGHT (%d violations)' % v if v > 0 else 'missed (exit %d)' % e) for (p, e, v, _) in caught) or 'not run'
        msg = (caught[0][3] if caught else '').replace('|', '\\|')[:150]
        f.write(f'| {d} | {prop} | {title.replace("|", "/")} | {verdict} | {msg} | {st} |\n')
    f.write(f'\n{c} of {n} seeded changes are reported by the quick tier of their property\'s check')
    f.write(f' ({len(skipped)} further changes no longer apply to the current tree: ' + ', '.join(f'{d} {s}' for d, s, _ in skipped) + ').\n' if skipped else '.\n')
print(open(os.path.join(root, 'RESULTS.md')).read()[-300:])
