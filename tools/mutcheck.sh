#!/bin/sh
# usage: mutcheck.sh <name> <patch-file> <CNN> [CNN...]
# Validation aid (not a registered check): applies a patch to a scratch copy of /repo, builds a
# copy of the harness against it and runs the quick tier of the given checks there. Evidence and
# replays go to /tmp/mut/<name>/out, never to /verif. Prints one line per check.
set -u
name="$1"; patch="$2"; shift 2
root=/tmp/mut/$name
rm -rf "$root"; mkdir -p "$root/out"
rsync -a --exclude target --exclude .git /repo/ "$root/repo/"
( cd "$root/repo" && patch -s -p1 < "$patch" ) || { echo "MUTANT $name: patch does not apply"; exit 3; }
rsync -a --exclude target --exclude 'target-build-*' /verif/harness/ "$root/h/"
sed -i "s#path = \"/repo\"#path = \"$root/repo\"#" "$root/h/Cargo.toml"
export CARGO_TARGET_DIR=/tmp/mut/target CARGO_NET_OFFLINE=true VCHECK_OUT="$root/out"
for id in "$@"; do
  bin=$(echo "$id" | tr 'A-Z' 'a-z')
  ( cd "$root/h" && cargo build --release --bin "$bin" >"$root/build-$bin.log" 2>&1 ) || { echo "MUTANT $name $id: BUILD FAILED (see $root/build-$bin.log)"; continue; }
  /tmp/mut/target/release/$bin run quick >"$root/run-$bin.log" 2>&1
  rc=$?
  v=$(grep -c '^VIOLATION' "$root/run-$bin.log")
  echo "MUTANT $name $id: exit=$rc violations=$v $(grep -m1 -B1 '^VIOLATION' "$root/run-$bin.log" | head -1 | cut -c1-160)"
done
[ -n "${KEEP:-}" ] || rm -rf "$root/repo" "$root/h"
