#!/usr/bin/env python3
"""development aid: classify C13/C20 survey failures by value shape."""
import json,collections,sys
prop=sys.argv[1] if len(sys.argv)>1 else 'C13'
only_default = '--all' not in sys.argv
rows=json.load(open(f'/tmp/survey-{prop}.json'))
D={'indent':2,'compact':False,'braces':True,'quote_all':False,'yaml12':False,'block':True,'tagged':False,'wrap':80,'min_fold':32,'anchors':False}
def sig(t,v,d=4):
    if d==0: return '..'
    if isinstance(t,str):
        if t=='Str': return 'StrML' if '\n' in v['Str'] else ('StrE' if v['Str']=='' else 'Str')
        return t
    (k,a),=t.items()
    if k=='Opt': return 'None' if v=='None' else 'Some('+sig(a,v['Some'],d)+')'
    if k=='Seq': return 'Seq['+','.join(sig(a,x,d-1) for x in v['Seq'])+']'
    if k=='Tuple': return 'Tup('+','.join(sig(x,y,d-1) for x,y in zip(a,v['Seq']))+')'
    if k=='TS': return 'TS('+','.join(sig(x,y,d-1) for x,y in zip(a,v['Seq']))+')'
    if k=='NT': return 'NT('+sig(a,v['NT'],d)+')'
    if k=='Map': return 'Map{'+','.join(sig(a[0],kk,d-1)+':'+sig(a[1],vv,d-1) for kk,vv in v['Map'])+'}'
    if k=='Struct': return 'St{'+','.join(sig(x,y,d-1) for x,y in zip(a[0],v['Struct']))+'}'
    if k=='Enum':
        i,p=v['Var']; vk=a[i]
        if vk=='Unit': return 'UV'
        (kk,aa),=vk.items()
        if kk=='New': return 'NV('+sig(aa,p[0],d-1)+')'
        if kk=='Tup': return 'TV('+','.join(sig(x,y,d-1) for x,y in zip(aa,p))+')'
        if kk=='St': return 'SV{'+','.join(sig(x,y,d-1) for x,y in zip(aa,p))+'}'
    return '?'
c=collections.Counter(); ex={}
for r in rows:
    o=r['case']['opts']
    if only_default and o!=D: continue
    s=sig(r['case']['ty'],r['case']['val'])
    if not only_default:
        nd={k:v for k,v in o.items() if v!=D[k]}
        s=s+' '+json.dumps(nd)
    c[s]+=1
    if s not in ex or len(r['msg'])<len(ex[s]): ex[s]=r['msg']
print(len(rows),'rows;',len(c),'shapes')
for s,n in sorted(c.items(), key=lambda kv:(len(kv[0]),kv[0]))[:int(sys.argv[2]) if len(sys.argv)>2 and sys.argv[2].isdigit() else 50]:
    print(n,s,'=>',ex[s][:260].replace('\n','\\n'))
