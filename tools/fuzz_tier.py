#!/usr/bin/env python3
"""Coverage-guided phase of a thorough tier.

usage: fuzz_tier.py <CNN> [seconds]

Builds the libFuzzer target fuzz/fuzz_targets/cNN.rs (no sanitizer: the crate forbids unsafe
code; debug assertions and overflow checks on) against /repo's working tree, runs it in fork
mode on all cores from a fresh corpus plus the committed seed inputs, and judges every artifact
with the release-build replay of the same check:

  * crash artifact whose decoded case the replay also rejects -> VIOLATION (exit 1)
  * crash / timeout artifact the replay does not confirm        -> INCONCLUSIVE (exit 2)
  * nothing                                                      -> exit 0

The campaign is pinned only approximately by -seed (libFuzzer fork mode is not deterministic);
the reproducible unit is the replay file written for each violation. Statistics are merged into
/verif/evidence/<CNN>.json under coverage.fuzz (and added to evaluations).
"""
import json, os, re, shutil, subprocess, sys, time, glob

pid = sys.argv[1]
secs = int(sys.argv[2]) if len(sys.argv) > 2 else int(os.environ.get("VCHECK_FUZZ_SECS", "600"))
b = pid.lower()
H = os.environ.get("VCHECK_HARNESS") or "/verif/harness"  # (override: development copies only)
F = H + "/fuzz"
seed = os.environ.get("VERIF_SEED", "1")
try:
    seed_n = (int(seed) % 2147483646) + 1
except ValueError:
    seed_n = 1
out_root = os.environ.get("VCHECK_OUT") or "/verif"
work = f"{H}/target/fuzz-run/{b}"
shutil.rmtree(work, ignore_errors=True)
os.makedirs(work + "/corpus")
os.makedirs(work + "/artifacts")
os.makedirs(work + "/stats")
env = dict(os.environ, CARGO_NET_OFFLINE="true", VCHECK_FUZZ_STATS=work + "/stats")

def say(*a):
    print(*a, flush=True)

t0 = time.time()
r = subprocess.run(["cargo", "+nightly", "fuzz", "build", "-s", "none", b], cwd=F, env=env,
                   stdout=subprocess.PIPE, stderr=subprocess.STDOUT, text=True)
if r.returncode != 0:
    say(r.stdout[-3000:])
    say(f"INCONCLUSIVE: fuzz target {b} does not build")
    sys.exit(2)
exe = f"{F}/target/x86_64-unknown-linux-gnu/release/{b}"
seeds = f"{F}/seeds/{b}"
args = [exe, work + "/corpus"]
if os.path.isdir(seeds):
    args.append(seeds)
ncpu = os.cpu_count() or 4
args += [f"-max_total_time={secs}", f"-seed={seed_n}", "-len_control=0", "-max_len=512",
         "-timeout=25", f"-fork={ncpu}", "-ignore_timeouts=1", "-ignore_ooms=1", "-ignore_crashes=0",
         "-rss_limit_mb=4096", f"-artifact_prefix={work}/artifacts/", "-print_final_stats=1"]
log = open(work + "/fuzz.log", "w")
p = subprocess.run(args, cwd=work, env=env, stdout=log, stderr=subprocess.STDOUT)
log.close()
text = open(work + "/fuzz.log", errors="replace").read()
wall = time.time() - t0

# --- statistics -------------------------------------------------------------------------------
st = {"execs": 0, "undecodable": 0, "evaluated": 0, "distinct_nontrivial": 0, "excluded_known": 0,
      "discards": 0, "per_check": {}, "samples": {}}
for f in glob.glob(work + "/stats/*.json"):
    try:
        j = json.load(open(f))
    except Exception:
        continue
    for k in ("execs", "undecodable", "evaluated", "excluded_known", "discards"):
        st[k] += j.get(k, 0)
    # distinct counts of different processes overlap: the union of the hash files is taken below
    st["distinct_nontrivial"] = max(st["distinct_nontrivial"], j.get("distinct_nontrivial", 0))
    for k, v in j.get("per_check", {}).items():
        st["per_check"][k] = st["per_check"].get(k, 0) + v
    for k, v in j.get("samples", {}).items():
        st["samples"].setdefault(k, v)
hs = set()
for f in glob.glob(work + "/stats/*.hashes"):
    d = open(f, "rb").read()
    for i in range(0, len(d) - 7, 8):
        hs.add(d[i:i + 8])
    if len(hs) > 30_000_000:
        break
st["distinct_nontrivial"] = max(st["distinct_nontrivial"], len(hs))
cov = re.findall(r"cov: (\d+) ft: (\d+) corp: (\d+)", text)
st["libfuzzer_cov_edges"] = max([int(c[0]) for c in cov], default=0)
st["libfuzzer_features"] = max([int(c[1]) for c in cov], default=0)
st["corpus"] = len(os.listdir(work + "/corpus"))
st["seconds"] = secs
st["jobs"] = ncpu

# --- artifacts ----------------------------------------------------------------------------------
rel = f"{H}/target/release/{b}"
violations, unconfirmed = [], []
for line in text.splitlines():
    m = re.match(r"VIOLATION property=(\S+) replay=(\S+)", line.strip())
    if m and m.group(2) not in violations:
        violations.append(m.group(2))
confirmed = []
for rp in violations:
    r = subprocess.run([rel, "replay", rp], stdout=subprocess.PIPE, stderr=subprocess.STDOUT, text=True, timeout=600)
    if r.returncode == 1:
        confirmed.append(rp)
    else:
        unconfirmed.append(f"{rp}: the release-build replay does not reject it (exit {r.returncode})")
arts = sorted(glob.glob(work + "/artifacts/*"))
handled = 0
for a in arts:
    name = os.path.basename(a)
    if name.startswith("crash-") and violations:
        handled += 1
        continue  # the in-target pipeline already wrote (and shrank) its replay file
    dst = f"{out_root}/replays/{pid}/fuzz-{name[:24]}.json"
    os.makedirs(os.path.dirname(dst), exist_ok=True)
    try:
        r = subprocess.run([rel, "fuzz-case", a, dst], stdout=subprocess.PIPE, stderr=subprocess.STDOUT, text=True, timeout=60)
    except subprocess.TimeoutExpired:
        unconfirmed.append(f"{name}: decoding the input does not terminate")
        continue
    if r.returncode != 0:
        unconfirmed.append(f"{name}: input does not decode ({r.stdout.strip()[-200:]})")
        continue
    try:
        r = subprocess.run([rel, "replay", dst], stdout=subprocess.PIPE, stderr=subprocess.STDOUT, text=True, timeout=900)
        rc = r.returncode
    except subprocess.TimeoutExpired:
        rc = -1
    if rc == 1:
        confirmed.append(dst)
    elif rc == 0:
        os.remove(dst)
        if name.startswith("crash-"):
            unconfirmed.append(f"{name}: crash in the fuzz build, but the release-build replay passes")
        # timeouts / ooms that the replay handles fine are load artefacts of 16 parallel jobs: ignored
    else:
        unconfirmed.append(f"{name}: replay exit {rc}")
st["artifacts"] = len(arts)
st["violations"] = len(confirmed)
st["unconfirmed"] = unconfirmed

# --- evidence -----------------------------------------------------------------------------------
ev_path = f"{out_root}/evidence/{pid}.json"
try:
    ev = json.load(open(ev_path))
    cv = ev.setdefault("coverage", {})
    cv["fuzz"] = {k: v for k, v in st.items() if k != "samples"}
    cv["fuzz"]["rule"] = ("libFuzzer (fork mode, no sanitizer, value-profile off) over the property's byte decoder; every decoded case goes "
                          "through the same oracle, known-finding signatures and shrinking as the random tiers; distinct_nontrivial "
                          "is the size of the union of the per-process sets of case hashes (flushed every 2048 executions, so a lower bound)")
    cv["evaluations"] = cv.get("evaluations", 0) + st["evaluated"]
    if isinstance(cv.get("samples"), list):
        for k, v in list(st["samples"].items())[:3]:
            cv["samples"].append({"check": k, "nontrivial": True, "case": v, "from": "libFuzzer"})
    ev["violations"] = ev.get("violations", 0) + len(confirmed)
    ev["wall_s"] = round(ev.get("wall_s", 0) + wall, 1)
    json.dump(ev, open(ev_path, "w"), indent=1)
except Exception as e:
    say(f"note: evidence file not updated ({e})")

say(f"{pid} fuzz: execs={st['execs']} evaluated={st['evaluated']} distinct_nontrivial>={st['distinct_nontrivial']} "
    f"excluded_known={st['excluded_known']} cov={st['libfuzzer_cov_edges']} corpus={st['corpus']} artifacts={len(arts)} "
    f"violations={len(confirmed)} wall={wall:.0f}s")
for rp in confirmed:
    say(f"VIOLATION property={pid} replay={rp}")
if confirmed:
    sys.exit(1)
if unconfirmed:
    for u in unconfirmed:
        say("INCONCLUSIVE:", u)
    sys.exit(2)
if st["execs"] == 0:
    say("INCONCLUSIVE: the fuzz target executed nothing")
    sys.exit(2)
sys.exit(0)
