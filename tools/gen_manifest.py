#!/usr/bin/env python3
"""Regenerates /verif/MANIFEST.json from the table below (one entry per property that has a check)."""
import json, os, subprocess

BASELINE = ("cd /repo && (cargo nextest run --workspace --no-fail-fast --tool-config-file pb:/w/lib/nextest.toml "
            "--profile pb --test-threads 8 --offline || cargo test --workspace --no-fail-fast --offline)")

# id -> (level, technique, level text, note, design ref)
CHECKS = {
 "C19": ("exploration",
         "grammar-based property testing with an independent AST evaluator as oracle (proptest expressions + an exhaustive three-operand space + literal corpus + token soup + pathological inputs with a counting allocator)",
         "750 k random expression ASTs (numbers with separators / exponents, pi / tau / inf / nan, + - * /, unary signs, parentheses, deg()/rad(), sexagesimal, !degrees / !radians tags, random blanks) rendered to text and compared bit for bit with an evaluator that never parses text; all 62208 three-operand expressions over 6 operands x 4 operators^2 x 3 parenthesisations x 3 tags x 2 targets; every sexagesimal seconds field SS.f / SS.ff / SS.fff (quick: every third) - one decimal literal, bit for bit; first fields of up to 400 digits; 96 k expressions with one documented error; a 96-spelling literal corpus plus 960 k random literals (option on == option off, f32 and f64, incl. f32 rounding midpoints); token soup and raw bytes for totality on a 1 MiB stack; pathological nests / digit runs / sign chains to 2e6 with allocation-count work bounds. Exploration.",
         "where module docs and README disagree (untagged sexagesimal) both readings are accepted; nested unit functions, unknown tags, >1000 digits per token and 256-299 nesting levels are Free; linear work is checked on allocator calls and bytes, not time",
         "DESIGN.md section 3 C19; notes/report-C19.md"),
 "C01": ("exploration",
         "exhaustive short token strings + grammar-based and mutation-based generation (proptest) + raw bytes + parameterised pathological inputs, every entry point x target family x option vectors per case on an 8 MiB-stack thread; crash / hang attribution through a per-case progress file and re-execution in fresh processes",
         "All strings of <= 3 tokens (thorough 4) over a 28-token indicator alphabet, grammar documents and 1-3 byte/token mutations of them, random bytes, BOM-prefixed (UTF-8/16/32) and truncated multi-byte input, and pathological nests / widths / document counts at and beyond the default budget limits; each case drives ~25 target types through every str / slice / multi-document / reader (3 chunkings) / iterator / closure / budget / validating entry point under 7 option vectors and renders every returned error 9 ways. Oracle: no panic, no process death (stack overflow, abort), iterator <= len+2 items, reader not polled > 10000 times after end of input. Exploration; termination is checked through work bounds and a watchdog, not proved.",
         "two open findings in the parser dependency (reader hang on a '%' line at end of input; debug assertion on reader input ending abruptly inside a block scalar) are excluded by skipping reader entry points for such input; the pathological inputs are also run through an unoptimized build of the check, where nests deeper than 500 levels are excluded by the open finding c01-unoptimized-build-stack; the harness builds the library with overflow checks and debug assertions on",
         "DESIGN.md section 3 C01"),
 "C16": ("exploration",
         "property-based testing with renderer ground truth: documents rendered by the harness with recorded line / column / char / byte positions of every node; a generic Spanned tree and provoked type errors are compared with them; a consistency predicate re-derives every reported Location from the text",
         "Random decorated documents (all scalar styles, multi-byte text, anchors / aliases to scalars and containers, block and flow) under layouts with a multi-byte first line, LF / CRLF / lone CR, comments, markers and indentation 2-4: both locations of every node of a generic Spanned<tree> are internally consistent and name the renderer's position (alias use site / anchored definition site), single-line scalar byte ranges equal the written token, a non-integer planted at every scalar leaf of an all-integer typed tree is reported at that leaf (or as the definition site under an alias); 3 fixed documents x every leaf x 586 layouts exhaustively; fixed merge documents for merge use / definition sites; enum payloads in tagged and mapping notation read directly and through an alias; an anchored scalar of the wrong type used through an alias in 13 value positions (field, element, newtype / tuple / struct variant payload, byte element, merge value, merge-sequence element, map value, Option, item, inside a merged mapping written in place; and a wrong-typed node nested in such a mapping, which has one site only) x 4 values x layouts: the error carries the alias as use site and the anchored node as definition site. Exploration.",
         "below mapping keys and inside replayed content only the definition site of plain nodes is judged (the property speaks of values reached through an alias); block scalars only for consistency; one open finding in the parser dependency (span of a quoted scalar includes trailing blanks / comment) excludes quoted scalars under comment layouts",
         "DESIGN.md section 3 C16"),
 "C14": ("exploration",
         "model-based property testing over generated object-graph descriptions (exhaustive small DAG shapes + proptest graphs); oracle = pointer-equality partition before vs after the round trip, predicted anchor / alias token sequence, tree expansion for plain mirror types",
         "All strong DAG shapes with <= 4 allocations x 4 variants, all weak-edge subsets for <= 2 allocations, every single weak edge for 3, random graphs with <= 10 allocations and <= 25 occurrences over Rc and Arc anchors with shared string leaves, weak edges to live and dropped targets and recursive links (self loop, parent pointer, rings, dangling), in sequence / map / nested-struct / Option positions under several serializer option vectors (indentation, compact_list_indent, quoting, tags, anchor names): the partition of wrapper occurrences by pointer equality, payloads, weak upgrade / dangling, link walks and re-serialised text are preserved; each shared class is defined once and aliased elsewhere; plain and mixed mirror types get equal independent copies. Exploration.",
         "weak edges are only generated when the strong occurrence is complete earlier (documented precondition); empty_as_braces=false and indent_step=1 are outside the domain (C13 findings); one open finding (anchor lost on a block-scalar string - its repair is blocked by a test that pins the anchor-less output) is excluded by signature",
         "DESIGN.md section 3 C14; notes/report-C14.md"),
 "C15": ("exploration",
         "stateful property-based testing: exhaustive call histories up to length 3 (4 over a core alphabet) + random histories to length 12 over 55 call kinds, every history on a fresh thread; oracle = each call's observation equals the same call alone on a fresh thread",
         "Histories over 27 base calls (successful / failing mid-anchored-node / failing inside an anchor context / budget and alias limit at the exact limit / shared RcAnchors / missing- and unknown-field errors / root static error / caught panic / duplicate key / multi-document / reader / abandoned and exhausted iterators / serialisation with anchors and into a failing writer / garde-validated parse / validator-crate parse with six failing fields, also rendered through miette; a callback-style parse nested in a Deserialize impl) and 25 nested calls (a parse inside the Deserialize impl of a field of an outer document with anchors before / around / inside): every observation (variant, locations, rendered message, pointer classes - never addresses) equals the isolated one; isolated observations agree across two fresh threads and contain documented constants. All 120099 histories of length <= 3 and 614656 of length 4 over a core alphabet are enumerated.",
         "observations are compared as strings built from variant, locations, messages and pointer-equality classes; Debug of validation errors (HashMap order) is not used",
         "DESIGN.md section 3 C15; notes/report-C15.md"),
 "C05": ("exploration",
         "property-based testing over (run-time type, document) pairs with a reference interpreter as three-valued oracle (Must / MustErr / Free with patterns); documents generated from the type then perturbed at one node",
         "Random type descriptions (depth <= 4, all serde shapes incl. the four enum variant kinds, structs with / without deny_unknown_fields) with documents generated from a value of the type (bare / mapping / tagged enum notations, block and flow, CRLF, comments) and one of 18 perturbations at a random node (null / scalar / sequence / mapping / variant in place, extra / missing / first-missing element, extra / missing entry, renamed key, second variant entry, sequence<->mapping, quoting): an accepted value must match the position-faithful pattern computed by the harness' interpreter over the document AST, a shape mismatch must be rejected, a matching document must be accepted; a bare payload-variant name must not take its payload from a sibling; every document is also read through from_str / from_slice / from_reader (same outcome) and through the streaming entry points read / from_multiple (one document gives at most one item, the iterator ends after an error, the item is the reference outcome - surplus elements must not be left in the stream). Exploration (150 k pairs quick, 2 M thorough).",
         "trusts the reference interpreter (DESIGN.md Appendix A: every Must cites README / rustdoc, everything else is Free) and the document renderer (self-checked against the raw parser events); scalars are limited to three unambiguous lexical classes; one open finding (composite key mistaken for the explicit-empty-key case) is excluded by signature",
         "DESIGN.md section 3 C05, Appendix A"),
 "C20": ("exploration",
         "property-based testing with a harness-computed ground-truth tree: values of the C13 grammar decorated with presentation wrappers (exhaustive comment / block-string pools x positions x options + proptest decorations); oracle = same data as the undecorated value, typed and untyped",
         "Every comment of an adversarial pool ('#', LF / CR / NEL / LS breaks, YAML syntax, quotes, NUL, tabs, long text) on every scalar kind in 4 positions, every block string of a pool (leading blanks, 0-3 trailing newlines, long words, tabs, controls) under LitStr / FoldStr in 4 positions, LitStr / FoldStr strings below every chain of <= 3 (thorough 4) positions (sequence item, map value, struct field, variant payloads, tuple item, Some) x indent x compact, flow wrappers around values that are no collections, each x 11 option vectors x wrapper stacks, plus random decorations (FlowSeq, FlowMap, LitStr, FoldStr, Commented, SpaceAfter, nested) of random typed trees under random options: the output is one document, deserializes into the bare type as the original value and its untyped view equals the harness' ground truth (folded strings modulo one trailing line break); concrete wrapped types round-trip into the wrapped types (start-up check). Exploration.",
         "shapes covered by open C13 findings (empty_as_braces=false empties, composite keys, indent_step=1) are discarded and counted; five open wrapper findings are excluded by signature (FoldStr inner breaks - documented, LitStr/FoldStr without content - pinned by tests, SpaceAfter after literal - documented for LitStr, payload variants / composite keys inside FlowSeq/FlowMap)",
         "DESIGN.md section 3 C20"),
 "C06": ("exploration",
         "exhaustive finite product (token corpus x style x tag x target x 16 option vectors) + proptest numeric tokens + exhaustive short base64 strings; oracle = independent three-valued reference model (own big integer, Rust float parser, own strict base64 decoder)",
         "Every cell of about 280 core tokens x 5 styles x 9 tags x 22 targets (incl. Vec<u8> and Option<Vec<u8>>, which are read through deserialize_seq), 1242 (thorough 2616) width-boundary integer spellings in every radix x 22 targets, all base64 strings of length <= 6 over a 9-character alphabet, all byte arrays of length <= 2, random numeric-looking tokens and byte arrays; each case is evaluated under all 16 option vectors at the root and inside a sequence against a model that answers Must / MustErr / Free, plus a per-option metamorphic relation (an option changes acceptance only in the documented direction). Exhaustive over the stated finite product, exploration beyond.",
         "trusts the reference model (each Must cites README / rustdoc; undocumented corners are Free) and Rust's str::parse as the IEEE oracle; the harness is built with the robotics feature compiled in (option off)",
         "DESIGN.md section 3 C06; notes/report-C06.md"),
 "C09": ("exploration",
         "differential property-based testing across entry points: exhaustive read-partitions of short multi-byte token strings + schedule family over a corpus + proptest documents; pointer-range oracle for borrowing",
         "All 2^(n-1) partitions of 3853 short token strings containing multi-byte characters (147362 document/schedule pairs), a 51-document corpus x schedule family (1 byte, fixed k, random, adversarial splits inside characters / CRLF / indicators) x 6 targets x 7 option vectors, random valid and mutated documents: from_str, from_slice, with_deserializer_* and from_reader under every schedule must agree on the value, or on error variant + line + column; a leading BOM is ignored by all; &str targets succeed exactly when the scalar is verbatim in the input (returned slices lie inside the input buffer), Cow targets equal owned, what the owned target rejects (a scalar tagged !!int) the borrowed one rejects too and tagged scalars (!!str ~, !!binary) give the same text, reader entry points never call visit_borrowed_str. Exploration, exhaustive for the short-string partitions.",
         "byte offsets are not compared (documented absent for readers); lending of block scalars is not fixed by the docs; two open findings in the parser dependency (tag handle without suffix, column after a multi-byte comment at EOF) and the reader '%' hang (C01) are excluded by construction",
         "DESIGN.md section 3 C09; notes/report-C09.md"),
 "C10": ("fault_enumeration",
         "fault enumeration: every byte position / every read call / every write call x error kinds x post-fault behaviour x chunkings x entry points over crafted documents whose prefixes are complete documents; oracle = fault-free result F",
         "About 80 crafted and 1300 enumerated documents x every fault position and every k-th read x 6 error kinds x sticky / clean-EOF x 3 chunkings x from_reader, with_deserializer_from_reader, read and the validating twins; EOF inside every multi-byte character; input caps around the length incl. endless readers (bytes pulled <= cap + 16 KiB); writers failing at every call (permanently or only once) / accepted byte count with short writes over 60 values x 11 option vectors. If the faulting call was made the result must be an error (iterator: the Ok items are a prefix of F's, an error is yielded, and the result is not a proper prefix of F - documents silently missing), else equal F; the writer returns the injected kind and what it accepted is a prefix of the fault-free output. Every single-fault position of the listed documents is enumerated.",
         "Interrupted is not injected (the property excludes it); which error variant a reader returns is not judged; caps within 3 bytes of the length on BOM inputs are not judged; the instrumented reader panics with a sentinel after 10000 polls past its end so that a spin becomes a failure, not a hang",
         "DESIGN.md section 3 C10; notes/report-C10.md"),
 "C17": ("exploration",
         "property-based testing of rendered reports with a layout parser as oracle: exhaustive cube around the error column + generated failing (input, target) pairs x renderers (Display, render_with_options x formatters x SnippetMode, miette handlers)",
         "2365 reflecting documents (escapes, raw controls, wide and bidi text reflected through unknown field / variant, duplicate key, invalid type, custom messages, tags, validation paths, alias errors), an exhaustive cube of 15840 cases (character class x prefix x suffix x radius x context shape) around the error column, 10-20 k character lines, inputs beyond the 3 KiB reader window, two-window alias reports (also with the definition site beyond column 65535), token soup and mutated seeds; for every rendering: no panic, no C0 (except newline / tab) / DEL / C1, at most 5 consecutive source lines within [L-2, L+2] containing L, each shown line a fragment of the input line with that number, cropping within the documented radius (context lines left of the window included), caret under the reported column (display columns), two leading byte order marks (one ignored, one counted); the source exposed to miette is the input line by line (CRLF breaks leave no visible character) and a miette label starts at the located byte (end of input included); from_multiple errors carry the snippet like from_str errors. Exploration.",
         "layout facts are taken from rustdoc / tests and self-checked against annotate-snippets at start-up; undocumented layout (lone CR, multi-line messages, implicit last empty line) is not judged; the harness' custom formatter / localizer is clean by construction; miette's own graphical handler is not run on lines longer than 60000 bytes (third-party formatting-width panic); open findings: marker in a trimmed margin, lone-CR line breaks, second window taken from a region cropped around the first location (lines over 4 KiB; keyed on the failure so that panics on those cases still count)",
         "DESIGN.md section 3 C17; notes/report-C17.md"),
 "C13": ("exploration",
         "property-based round trip over run-time type descriptions (proptest) + exhaustive small trees; oracle = one well-formed document and equality after a run-time-schema DeserializeSeed",
         "A fixed family of all trees of depth <= 2 (thorough 3) with <= 2 children per node over 9 leaf kinds x 11 option vectors, plus random (type, value) pairs to depth 5 under random option vectors: every serde data-model shape (options, sequences, tuples, tuple structs, newtype structs, maps with scalar and composite keys, structs, the four enum variant kinds) in every parent position, plus a block-scalar string below every chain of <= 4 (thorough 5) positions (sequence item, map value, struct field, newtype / struct / tuple variant payload, tuple item, Some) x indent {2,3,4,8} x compact x wrap; every value is serialised twice, with and without announced collection lengths (serialize_seq(None) / serialize_map(None)); the emitted text must be exactly one document and deserialize back to the same value through a seed that calls the same serde methods a derived type would call (self-checked against derived types). Exploration over the enumerated family and samples.",
         "four open findings exclude: empty collections under empty_as_braces=false, composite keys with block bodies / under non-default indentation, composite keys mistaken for the explicit-empty-key special case, and indent_step=1 nesting; Option<T> only for T without a null-like encoding",
         "DESIGN.md section 3 C13"),
 "C08": ("exploration",
         "parameter-grid enumeration of attack families + proptest documents; oracle = independent usage/replay model for acceptance, counting visitor for delivered nodes, counting global allocator for peak heap",
         "Whole parameter grid of alias bombs, alias chains, aliases inside anchored containers, nested anchors (flow/block), wide merges and long complex keys x 9 limit settings (defaults; node / total-replay / per-anchor limits at usage and usage-1; replay stack depth 0/1), plus generated documents: delivered nodes <= min(node, event limit)+2, accepted iff the model is within all limits (matching error category otherwise), peak heap within 64 KiB + 16 x (input + 96 B x raw events) + 2 x 96 B x replayed events, nested-anchor scaling <= 4x. Exploration over the grid and samples; the constants of the memory bound are design choices.",
         "trusts the harness' usage model and allocator accounting; one open finding (recording cost of nested anchored containers) excludes NestedAnchors d>=4, chains >=4 and documents with >=4 nested anchored containers",
         "DESIGN.md section 3 C08"),
 "C18": ("exploration",
         "model-based property testing with harness-rendered documents and ground-truth positions; exhaustive single/double violated-leaf enumeration + proptest documents/streams; recording Localizer as observation channel",
         "A fixed family of garde+validator types; documents rendered by the harness with every leaf supplied directly / through aliases / through merges; all 21 leaves x 8 supplies (direct, anchored, alias, `<<: *base`, overriding a merged value, merged alias, merged mapping written in place, alias inside such a mapping) x 7 entry points x 2 crates x 3 styles with one violated leaf, all 210 leaf pairs, random documents and streams: validated entry points == plain ones when nothing is violated; otherwise the reported path set equals the harness-evaluated constraint set, each path's use site / definition site equal the renderer's ground truth (observed through a recording Localizer and Error::locations()), every failing document of a stream is reported; documents whose root is a sequence of validated structs keep their positions; a violated field filled by its serde default is named by the plain and the miette rendering; garde issues inside an Option (keyless path component) and validator struct-level (schema) issues are located; a 260 MiB stream of valid documents gives the same items through read and the validating iterators. Exploration over enumerated and sampled documents.",
         "trusts the harness' renderer positions and constraint evaluator (cross-checked against the crates' own validate()); use site of values through merges / aliased mappings and locations of validator map entries are not fixed by the docs and only safety-checked",
         "DESIGN.md section 3 C18; notes/report-C18.md"),
 "C07": ("exploration",
         "reference-model property-based testing: an independent counter over raw saphyr-parser events plus a replay model gives the usage U; limits U_c / U_c-1 probe threshold exactness; exhaustive prefix histories for per-document enforcement",
         "For generated streams (anchors, aliases to containers, nested replay, merges) and a fixed enumeration of small documents: report == independent count, check_yaml_budget == raw count, every limit set to the usage is accepted and usage-1 is rejected with the matching breach at the first exceeding raw event, budgets >= usage never reject, ratio heuristic exact at its boundary; all prefix histories of length <= 3 (thorough 4) over 7 document kinds x 4 final documents x (exact budget, 7 lowered limits, 7 single limits) for per-document independence of the streaming iterator, and the alias/anchor ratio at its boundary for a document alone, after a prefix and before a following document; the same document twice in one stream under each counter limited to usage / usage-1 (both copies get the verdict of one copy alone); a breach met during alias replay must still be Error::Budget. Exploration over generated inputs and enumerated histories.",
         "trusts the harness' usage model (DESIGN.md Appendix B, written from the Budget rustdoc); breach location is judged only for raw (non-replayed) events; whether the document-start event belongs to the per-document event count is not judged",
         "DESIGN.md section 3 C07, Appendix B"),
 "C11": ("exploration",
         "model-based property testing: exhaustive sequences over 20 document kinds (length <= 3 / 4) + proptest longer streams; oracle = per-document results composed by a stream model",
         "All sequences of length <= 3 (thorough 4) over 20 document kinds (incl. empty strings, `!!str null`, bare names of unit and payload enum variants, tag-selected unit variants, a document with an undeclared tag handle - a parser error after which the parser would go on) with rotating text variants, end markers, trailing comments, CRLF and 0-2 leading byte order marks, and random streams up to 8 documents, for untyped, map, String and enum targets; batch (str, slice), the streaming iterator under three read chunkings, and the single-document entry points are compared with a model composed from each document parsed alone (skip empty/null, stop at syntax error, continue after type error, len+2 termination bound, anchors not visible across documents). Exploration over the enumerated space.",
         "documents are classified by construction (contains a syntax error / empty); behaviour after a document that aliases an earlier document's anchor and trailing empty documents after single-document entry points are not judged",
         "DESIGN.md section 3 C11"),
 "C04": ("exploration",
         "metamorphic + reference-model property-based testing: each generated mapping is run under all three policies and compared with the harness' de-duplicated renderings and ground-truth key positions; exhaustive small mappings + proptest",
         "All mappings with <= 4 entries over 2 key identities x 3 key kinds (scalar, sequence, mapping) x 3 value shapes (up to 3-level containers) at 3 nesting positions in block and flow layout, plus random mappings with quoted / core-tagged / application-tagged (two tags, scalar and sequence keys) / aliased / null and empty-string keys (an omitted node with an anchor is the null key) and aliased values, and mappings consumed as merge sources that repeat keys among their own entries (in place, through an alias, inside a merge sequence, below a nested merge). Error policy: DuplicateMappingKey at the renderer's ground-truth position of the second occurrence; FirstWins == document with later entries deleted; LastWins delivers every entry in order / overwriting map == earlier entries deleted; no repeats => all policies agree. Exploration: no counterexample in the enumerated and sampled space.",
         "trusts the harness' same_key rule (structure, scalar text, tag; style ignored - the property's wording), renderer positions (self-checked against the raw parser events) and de-duplication; locations are not judged for aliased keys / replayed content",
         "DESIGN.md section 3 C04"),
 "C03": ("exploration",
         "metamorphic + reference-model property-based testing: value(doc with merges) == value(harness-merged document) and == the harness' expected ordered value; exhaustive small shapes + proptest nested merges",
         "All merge shapes with <= 2 own keys, <= 2 merge entries at every interleaving, <= 2 sources per entry (inline, alias, sequence) over 3 key names, under all three duplicate-key policies; random merges nested to depth 3 with null values, nested sequences and aliases; invalid merge values must be rejected; quoted/tagged << must stay an ordinary key. Delivery order is observed through an order-preserving target. Exploration: no counterexample in the enumerated and sampled space.",
         "trusts the harness' resolve_merges (a direct transcription of the property's sentence) and renderer (self-checked against the raw parser); own keys never repeat (C04's domain)",
         "DESIGN.md section 3 C03"),
 "C02": ("exploration",
         "metamorphic property-based testing: value(doc) == value(harness-computed alias-free expansion); exhaustive small trees x anchor/alias placements + proptest-generated decorated trees",
         "Every tree with <= 5 (thorough 6) nodes x every placement of <= 2 anchors and <= 3 aliases in block and flow layout, plus random decorated trees, merge values through aliases, tagged and null-like / empty scalars (incl. an omitted node that carries only an anchor) anchored and aliased in value, item and key position, and multi-document streams, for untyped, serde_json and shape-following typed targets; each document is compared with its alias-free, anchor-free expansion computed on the AST; unbound aliases must be rejected. Exploration: no counterexample in the enumerated space and the random sample.",
         "trusts the harness' expander (YAML semantics: names bind at the anchor mark) and renderer; every rendered text is self-checked against the raw saphyr-parser event stream; recursive aliases (alias to a still-open node) are not judged",
         "DESIGN.md section 3 C02"),
 "C12": ("exploration",
         "property-based round trip (proptest + exhaustive small-string enumeration), oracle = equality after from_str(to_string(v)) plus untyped string view",
         "Exhaustive enumeration of all strings of length <= 3 (thorough: <= 4) over a 46-character adversarial alphabet in 12 positions under 11+ option vectors, a look-alike lexicon with every 1-character prefix/suffix, random long strings, strided (thorough: all 2^32) f32 bit patterns, random/boundary f64, all integer width boundaries, chars and byte arrays; each case is serialised, parsed back typed and untyped and compared. Exploration, not proof: absence of counterexamples in the stated finite spaces and samples.",
         "trusts the harness' comparison code and the parser used to read back (same library); deserialization under default Options (strict_booleans when yaml_12 is on, as documented)",
         "DESIGN.md section 3 C12"),
}

FUZZ = {"C%02d" % i for i in range(1, 21)}

NOT_BUILT_REASON = "check not built yet in this round (planned: see DESIGN.md section 3); not claimed"

def main():
    props = [json.loads(l)["id"] for l in open("/verif/properties.jsonl")]
    hooks_commits = []
    checks = []
    for pid in props:
        if pid not in CHECKS or not os.path.exists(f"/verif/harness/src/bin/{pid.lower()}.rs"):
            continue
        level, tech, text, note, ref = CHECKS[pid]
        if pid in FUZZ:
            tech += "; thorough tier continues with a coverage-guided libFuzzer campaign (cargo-fuzz target harness/fuzz/fuzz_targets/%s.rs) over a byte decoder of the same case type, with the same oracle, signatures, shrinking and replay files" % pid.lower()
            text += " Thorough: followed by a libFuzzer campaign (fork mode on all cores, default 600 s, VCHECK_FUZZ_SECS) whose inputs are decoded into cases of this check; artifacts are judged by the release-build replay (DESIGN.md section 2.1a)."
        checks.append({
            "property_id": pid,
            "quick_cmd": f"./check {pid} quick",
            "thorough_cmd": f"./check {pid} thorough",
            "evidence_file": f"/verif/evidence/{pid}.json",
            "replay_cmd_template": "./check --replay {path}",
            "engine": "vcheck",
            "level_claimed": {"category": level, "text": text, "design_ref": ref},
            "level_note": note,
            "technique": tech,
        })
    claimed = {c["property_id"] for c in checks}
    na = [{"property_id": p, "reason": NOT_BUILT_REASON} for p in props if p not in claimed]
    m = {
        "version": 1,
        "setup_cmd": "cd /verif/harness && CARGO_NET_OFFLINE=true cargo build --release " + " ".join(f"--bin {c.lower()}" for c in sorted(claimed)),
        "hooks": {
            "guard": "--cfg serde_saphyr_verif (unused: no source hooks were needed)",
            "enable": "none: every observation goes through the public API; checks build /repo as a path dependency of /verif/harness",
            "baseline_off_cmd": BASELINE,
            "source_commits": hooks_commits,
            "add_only": True,
        },
        "engines": [{
            "name": "vcheck",
            "path": "/verif/harness",
            "serves_properties": sorted(claimed),
            "kind_free_text": "Rust crate: proptest strategies + exhaustive enumerators + explicit oracles, 16 worker processes, shrinking, replay files, known findings (see DESIGN.md section 2)",
        }, {
            "name": "vcheck-fuzz",
            "path": "/verif/harness/fuzz",
            "serves_properties": sorted(FUZZ & claimed),
            "kind_free_text": "cargo-fuzz crate (libFuzzer, no sanitizer, debug assertions on): one target per property that includes the property's binary source and feeds engine::fuzz_one; driven by tools/fuzz_tier.py from ./check <id> thorough (DESIGN.md section 2.1a)",
        }],
        "checks": checks,
        "not_applicable": na,
        "notes": "Exit codes of ./check: 0 held, 1 VIOLATION, 2 inconclusive. Known findings: /verif/known_findings.json (witnesses under /verif/witnesses).",
    }
    json.dump(m, open("/verif/MANIFEST.json", "w"), indent=1)
    print("claimed:", sorted(claimed))

main()
