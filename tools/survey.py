#!/usr/bin/env python3
"""development aid: run a check in survey mode and summarise failing cases (not a check)."""
import json,collections,sys,glob,os,subprocess
prop=sys.argv[1]; only=sys.argv[2] if len(sys.argv)>2 else ''
pref=f'/tmp/sv-{prop}-{os.getpid()}'
env=dict(os.environ, VCHECK_SURVEY=pref, VCHECK_ONLY=only)
subprocess.run(['/verif/check',prop,'quick'],env=env,stdout=subprocess.DEVNULL,stderr=subprocess.DEVNULL)
rows=[]
for f in glob.glob(pref+'.*'):
    rows+=[json.loads(l) for l in open(f)]
    os.remove(f)
json.dump(rows,open(f'/tmp/survey-{prop}.json','w'))
print('full dump: /tmp/survey-%s.json' % prop)
print(len(rows),'failing cases')
c=collections.Counter((r['check'],r['msg'][:60]) for r in rows)
for k,v in c.most_common(40): print(v,k)
