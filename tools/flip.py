#!/usr/bin/env python3
"""usage: flip.py <CNN> <finding-id> <grep-string-of-fix-commit>  -- mark a finding fixed"""
import json,sys,subprocess
prop,fid,pat=sys.argv[1:4]
h=subprocess.run(['git','-C','/repo','log','--format=%h','-1','--grep',pat],capture_output=True,text=True).stdout.strip()
if not h: sys.exit('no commit matching '+pat)
for p in ['/verif/findings.d/%s.json'%prop,'/verif/known_findings.json']:
    try: d=json.load(open(p))
    except FileNotFoundError: continue
    hit=False
    for f in d['findings']:
        if f['id']==fid:
            f['status']='fixed'; f['commit']=h
            f['record']=f"fixed: property={f['property']} {h} {f['what']}"
            hit=True
    if hit:
        json.dump(d,open(p,'w'),indent=1); print('flipped',fid,'in',p,h); break
else:
    sys.exit('finding not found: '+fid)
