#!/bin/sh
# usage: run_seeded.sh [id ...]   (default: every /verif/seeded/*/)
# Runs the quick tier of the seeded change's property check (and any extra checks listed in
# meta.json "also") against a scratch copy of /repo with the change applied; appends to RESULTS.md.
cd /verif/seeded || exit 2
ids="$@"; [ -z "$ids" ] && ids=$(ls -d */ | tr -d /)
for id in $ids; do
  [ -f "$id/patch.diff" ] || continue
  prop=$(jq -r .property "$id/meta.json")
  also=$(jq -r '.also // [] | join(" ")' "$id/meta.json")
  res=$(/verif/tools/mutcheck.sh "seed-$id" "/verif/seeded/$id/patch.diff" $prop $also 2>&1 | grep MUTANT)
  echo "$res" | sed "s/^MUTANT seed-//" | cut -c1-220
  echo "$res" | sed "s/^MUTANT seed-//" | cut -c1-400 > "$id/check_result.txt"
done
