#!/usr/bin/env python3
"""usage: add_fixed.py CNN finding-id commit replay.json witness_name 'what failed'
Records a repaired defect: copies the failing case as a witness (replayed by every run of the
check: it must pass on the repaired tree) and appends a `fixed` record to findings.d/CNN.json."""
import json, sys, os
pid, fid, commit, replay, wname, what = sys.argv[1:7]
r = json.load(open(replay))
w = {"property": pid, "check": "witness", "case": r["case"]}
os.makedirs(f"/verif/witnesses/{pid}", exist_ok=True)
wp = f"witnesses/{pid}/{wname}.json"
json.dump(w, open("/verif/" + wp, "w"), indent=1)
p = f"/verif/findings.d/{pid}.json"
d = json.load(open(p)) if os.path.exists(p) else {"findings": []}
assert not any(f["id"] == fid for f in d["findings"]), "id exists"
d["findings"].append({"id": fid, "property": pid, "status": "fixed", "signature": "", "witness": wp, "hang": False,
                      "what": what, "record": f"fixed: property={pid} {commit} {what}", "commit": commit})
json.dump(d, open(p, "w"), indent=1)
print("recorded", fid, wp)
