#!/bin/sh
# usage: confirm_seed.sh <PID> <mN> [base directory, default /tmp/seed]
# Confirms a sub-agent's seeded change in its scratch worktree: with the patch the crate builds,
# the unedited suite stays at 1627 passed and the demonstration fails; without it the
# demonstration passes. On success copies it to /verif/seeded/<PID>-<mN>/.
set -u
pid="$1"; m="$2"
d=${3:-/tmp/seed}/$pid; wt=$d/wt; out=$d/out
export CARGO_TARGET_DIR=$d/target CARGO_NET_OFFLINE=true
feat=""
case "$pid" in C17|C18|C19) feat="--features garde,validator,miette,robotics";; esac
cd "$wt" || exit 2
git checkout -q -- . ; rm -f tests/seed_demo_*.rs
cp "$out/${m}_demo.rs" tests/seed_demo_$m.rs
# 1. without the patch the demo passes
cargo test $feat --offline --test seed_demo_$m >"$d/confirm-$m-clean.log" 2>&1; rc_clean=$?
# 2. with the patch: demo fails, suite passes
git apply "$out/$m.diff" || { echo "SEED $pid $m: patch does not apply"; git checkout -q -- .; rm -f tests/seed_demo_$m.rs; exit 1; }
cargo test $feat --offline --test seed_demo_$m >"$d/confirm-$m-patched.log" 2>&1; rc_patched=$?
mv tests/seed_demo_$m.rs "$d/seed_demo_$m.rs.keep"
cargo nextest run --workspace --no-fail-fast --offline >"$d/confirm-$m-suite.log" 2>&1; rc_suite=$?
suite=$(grep -E "Summary" "$d/confirm-$m-suite.log" | tail -1)
git checkout -q -- . ; rm -f tests/seed_demo_*.rs
echo "SEED $pid $m: demo clean rc=$rc_clean (want 0), demo patched rc=$rc_patched (want != 0), suite rc=$rc_suite $suite"
if [ $rc_clean -eq 0 ] && [ $rc_patched -ne 0 ] && [ $rc_suite -eq 0 ]; then
  dst=/verif/seeded/$pid-$m; mkdir -p "$dst"
  cp "$out/$m.diff" "$dst/patch.diff"; cp "$out/${m}_demo.rs" "$dst/demo.rs"; cp "$out/$m.txt" "$dst/notes.txt" 2>/dev/null
  python3 - "$pid" "$m" "$dst" "$suite" <<'PY'
import json,sys
pid,m,dst,suite=sys.argv[1:5]
notes=open(dst+'/notes.txt').read() if __import__('os').path.exists(dst+'/notes.txt') else ''
json.dump({"property":pid,"id":f"{pid}-{m}","written_by":"independent sub-agent given only the property text and a scratch worktree",
 "needs_to_manifest":notes[:1500],
 "confirmed":{"demo_on_unchanged_tree":"passes","demo_with_patch":"fails","suite_with_patch":suite.strip(),
  "commands":["cargo test --offline --test seed_demo_"+m+" (clean worktree, then with patch applied)","cargo nextest run --workspace --no-fail-fast --offline (with patch applied, demo file removed)"]}},
 open(dst+'/meta.json','w'),indent=1)
PY
  echo "SEED $pid $m: CONFIRMED -> $dst"
else
  echo "SEED $pid $m: NOT CONFIRMED"
fi
