#!/usr/bin/env python3
"""usage: add_open.py CNN finding-id signature replay.json witness_name 'what fails'
Records an open (unrepaired) finding: the witness is a failing case carrying the signature; the
check prints KNOWN-FINDING for it and excludes cases with that signature."""
import json, sys, os
pid, fid, sig, replay, wname, what = sys.argv[1:7]
r = json.load(open(replay))
w = {"property": pid, "check": "witness", "case": r["case"]}
os.makedirs(f"/verif/witnesses/{pid}", exist_ok=True)
wp = f"witnesses/{pid}/{wname}.json"
json.dump(w, open("/verif/" + wp, "w"), indent=1)
p = f"/verif/findings.d/{pid}.json"
d = json.load(open(p)) if os.path.exists(p) else {"findings": []}
assert not any(f["id"] == fid for f in d["findings"]), "id exists"
d["findings"].append({"id": fid, "property": pid, "status": "open", "signature": sig, "witness": wp, "hang": False, "what": what, "record": ""})
json.dump(d, open(p, "w"), indent=1)
print("recorded open", fid, wp)
