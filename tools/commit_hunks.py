#!/usr/bin/env python3
"""usage: commit_hunks.py <regex> <message-file>  -- stage every hunk of `git diff` in /repo whose
added/removed lines match the regex, and commit it (development aid for small separate commits)."""
import re,subprocess,sys
rx=re.compile(sys.argv[1]); msgfile=sys.argv[2]
d=subprocess.run(['git','-C','/repo','diff','-U3'],capture_output=True,text=True).stdout
files=re.split(r'(?m)^(?=diff --git )',d)
out=''
for f in files:
    if not f.strip(): continue
    parts=re.split(r'(?m)^(?=@@ )',f)
    head,hunks=parts[0],parts[1:]
    keep=[h for h in hunks if any(rx.search(l[1:]) for l in h.splitlines()[1:] if l[:1] in '+-')]
    if keep: out+=head+''.join(keep)
if not out: sys.exit('no hunks matched')
p=subprocess.run(['git','-C','/repo','apply','--cached','--recount','-'],input=out,text=True)
if p.returncode: sys.exit('apply failed')
subprocess.run(['git','-C','/repo','commit','-q','-F',msgfile],check=True)
print(subprocess.run(['git','-C','/repo','log','--oneline','-1'],capture_output=True,text=True).stdout)
